// LD_PRELOAD shim: observes (and can cut short or fail) every file-system mutating call the
// process makes under SHIM_ROOT.  Used for crash-point enumeration, fault injection and
// system-call trace recording (C02, C08, C12, C13).
//
//   SHIM_ROOT=<dir>        only calls on paths under this prefix are counted / logged
//   SHIM_LOG=<file>        append one ndjson line per counted call (and per shim_mark)
//   SHIM_CRASH_AT=<n>      _exit(77) immediately BEFORE the n-th counted call (1-based)
//   SHIM_MODEL=a|b         b: at the crash, every file's bytes written after its last successful
//                          fsync/fdatasync are dropped (directory operations persist)
//   SHIM_FAIL_AT=<n>:<errno>  the n-th counted call fails with errno instead of executing
//   SHIM_STALL_AT=<n>      if the n-th counted call is the rename of a flushed write-ahead log into trash/, it is
//                          not executed and reports success (logged as "stall"): the schedule in which the memtable
//                          thread is descheduled just before that rename while every other thread keeps running;
//                          used together with a later SHIM_CRASH_AT
//
// Counted calls: write, pwrite64, fsync, fdatasync, link, linkat, rename, renameat, unlink, unlinkat,
// mkdir, rmdir, ftruncate64/ftruncate, and open/open64/openat with O_CREAT (only when the file did
// not exist, i.e. when it creates).
#define _GNU_SOURCE
#include <dlfcn.h>
#include <errno.h>
#include <fcntl.h>
#include <pthread.h>
#include <stdarg.h>
#include <stdio.h>
#include <stdlib.h>
#include <string.h>
#include <sys/stat.h>
#include <sys/types.h>
#include <unistd.h>

static pthread_mutex_t mu = PTHREAD_MUTEX_INITIALIZER;
static int inited = 0;
static char root[1024];
static size_t rootlen = 0;
static int logfd = -1;
static long counter = 0;
static long crash_at = 0;
static long fail_at = 0;
static long stall_at = 0;
static int fail_errno = 0;
static char model = 'a';

static ssize_t (*real_write)(int, const void *, size_t);
static ssize_t (*real_pwrite64)(int, const void *, size_t, off_t);
static int (*real_fsync)(int);
static int (*real_fdatasync)(int);
static int (*real_link)(const char *, const char *);
static int (*real_linkat)(int, const char *, int, const char *, int);
static int (*real_rename)(const char *, const char *);
static int (*real_renameat)(int, const char *, int, const char *);
static int (*real_unlink)(const char *);
static int (*real_unlinkat)(int, const char *, int);
static int (*real_mkdir)(const char *, mode_t);
static int (*real_rmdir)(const char *);
static int (*real_open)(const char *, int, ...);
static int (*real_open64)(const char *, int, ...);
static int (*real_openat)(int, const char *, int, ...);
static int (*real_ftruncate)(int, off_t);
static int (*real_ftruncate64)(int, off_t);

#define MAXINO 8192
static struct { dev_t dev; ino_t ino; off_t synced; char path[512]; int used; } inodes[MAXINO];

static void init(void) {
    if (inited) return;
    inited = 1;
    real_write = dlsym(RTLD_NEXT, "write");
    real_pwrite64 = dlsym(RTLD_NEXT, "pwrite64");
    real_fsync = dlsym(RTLD_NEXT, "fsync");
    real_fdatasync = dlsym(RTLD_NEXT, "fdatasync");
    real_link = dlsym(RTLD_NEXT, "link");
    real_linkat = dlsym(RTLD_NEXT, "linkat");
    real_rename = dlsym(RTLD_NEXT, "rename");
    real_renameat = dlsym(RTLD_NEXT, "renameat");
    real_unlink = dlsym(RTLD_NEXT, "unlink");
    real_unlinkat = dlsym(RTLD_NEXT, "unlinkat");
    real_mkdir = dlsym(RTLD_NEXT, "mkdir");
    real_rmdir = dlsym(RTLD_NEXT, "rmdir");
    real_open = dlsym(RTLD_NEXT, "open");
    real_open64 = dlsym(RTLD_NEXT, "open64");
    real_openat = dlsym(RTLD_NEXT, "openat");
    real_ftruncate = dlsym(RTLD_NEXT, "ftruncate");
    real_ftruncate64 = dlsym(RTLD_NEXT, "ftruncate64");
    const char *r = getenv("SHIM_ROOT");
    if (r) { strncpy(root, r, sizeof(root) - 1); rootlen = strlen(root); }
    const char *l = getenv("SHIM_LOG");
    if (l) logfd = real_open(l, O_WRONLY | O_CREAT | O_APPEND | O_CLOEXEC, 0644);
    const char *c = getenv("SHIM_CRASH_AT");
    if (c) crash_at = atol(c);
    const char *m = getenv("SHIM_MODEL");
    if (m && m[0] == 'b') model = 'b';
    const char *sa = getenv("SHIM_STALL_AT");
    if (sa) stall_at = atol(sa);
    const char *f = getenv("SHIM_FAIL_AT");
    if (f) { fail_at = atol(f); const char *colon = strchr(f, ':'); fail_errno = colon ? atoi(colon + 1) : EIO; }
}

static int under_root(const char *p) {
    return rootlen > 0 && p && strncmp(p, root, rootlen) == 0;
}

static const char *rel(const char *p) {
    if (under_root(p)) { p += rootlen; while (*p == '/') p++; }
    return p;
}

static int fd_path(int fd, char *buf, size_t n) {
    char link[64];
    snprintf(link, sizeof link, "/proc/self/fd/%d", fd);
    ssize_t k = readlink(link, buf, n - 1);
    if (k < 0) return 0;
    buf[k] = 0;
    return 1;
}

static void abspath(int dirfd, const char *p, char *out, size_t n) {
    if (!p) { out[0] = 0; return; }
    if (p[0] == '/') { strncpy(out, p, n - 1); out[n - 1] = 0; return; }
    char base[600];
    if (dirfd == AT_FDCWD) { if (!getcwd(base, sizeof base)) base[0] = 0; }
    else if (!fd_path(dirfd, base, sizeof base)) base[0] = 0;
    snprintf(out, n, "%s/%s", base, p);
}

static int slot_for(dev_t dev, ino_t ino, int create) {
    unsigned h = (unsigned)(ino * 2654435761u) % MAXINO;
    for (int i = 0; i < MAXINO; i++) {
        int s = (h + i) % MAXINO;
        if (inodes[s].used && inodes[s].dev == dev && inodes[s].ino == ino) return s;
        if (!inodes[s].used) {
            if (!create) return -1;
            inodes[s].used = 1; inodes[s].dev = dev; inodes[s].ino = ino; inodes[s].synced = 0; inodes[s].path[0] = 0;
            return s;
        }
    }
    return -1;
}

static void note_file(int fd, const char *path, int synced_now) {
    struct stat st;
    if (fstat(fd, &st) != 0 || !S_ISREG(st.st_mode)) return;
    int s = slot_for(st.st_dev, st.st_ino, 1);
    if (s < 0) return;
    if (path && path[0]) { strncpy(inodes[s].path, path, sizeof(inodes[s].path) - 1); }
    if (synced_now) inodes[s].synced = st.st_size;
}

// a freshly created file: inode numbers are reused, so forget whatever an earlier file left behind
static void note_new(int fd, const char *path) {
    struct stat st;
    if (fd < 0 || fstat(fd, &st) != 0 || !S_ISREG(st.st_mode)) return;
    int s = slot_for(st.st_dev, st.st_ino, 1);
    if (s < 0) return;
    inodes[s].synced = 0;
    strncpy(inodes[s].path, path, sizeof(inodes[s].path) - 1);
    inodes[s].path[sizeof(inodes[s].path) - 1] = 0;
}

static void logline(const char *fmt, ...) {
    if (logfd < 0) return;
    char buf[2048];
    va_list ap;
    va_start(ap, fmt);
    int n = vsnprintf(buf, sizeof buf - 2, fmt, ap);
    va_end(ap);
    if (n < 0) return;
    if (n > (int)sizeof buf - 2) n = sizeof buf - 2;
    buf[n++] = '\n';
    real_write(logfd, buf, n);
}

static void crash_now(void) {
    if (model == 'b') {
        for (int s = 0; s < MAXINO; s++) {
            if (!inodes[s].used || !inodes[s].path[0]) continue;
            struct stat st;
            // the path may have been renamed/unlinked: only truncate if it still names this inode;
            // otherwise look for the inode through other recorded names (hard links share it)
            if (stat(inodes[s].path, &st) == 0 && st.st_dev == inodes[s].dev && st.st_ino == inodes[s].ino) {
                if (st.st_size > inodes[s].synced) truncate(inodes[s].path, inodes[s].synced);
            }
        }
    }
    logline("{\"call\":\"crash\",\"n\":%ld,\"model\":\"%c\"}", counter, model);
    _exit(77);
}

// returns 0: go ahead; -1: fail with errno set (the failure is logged here, the success by done())
static long cur_n = 0;
static void logcall(const char *call, const char *p1, const char *p2, long len, int fail, long ret) {
    if (p2)
        logline("{\"call\":\"%s\",\"n\":%ld,\"path\":\"%s\",\"path2\":\"%s\",\"len\":%ld,\"fail\":%d,\"ret\":%ld}", call, cur_n, rel(p1), rel(p2), len, fail, ret);
    else
        logline("{\"call\":\"%s\",\"n\":%ld,\"path\":\"%s\",\"len\":%ld,\"fail\":%d,\"ret\":%ld}", call, cur_n, rel(p1), len, fail, ret);
}
static int gate(const char *call, const char *p1, const char *p2, long len) {
    counter++;
    cur_n = counter;
    if (crash_at > 0 && counter == crash_at) crash_now();
    int failing = (fail_at > 0 && counter == fail_at);
    if (failing) { logcall(call, p1, p2, len, fail_errno, -1); errno = fail_errno; return -1; }
    return 0;
}
// after the real call: one log line with its result
static void done(const char *call, const char *p1, const char *p2, long len, long ret) {
    int e = errno;
    pthread_mutex_lock(&mu);
    logcall(call, p1, p2, len, 0, ret < 0 ? -1 : 0);
    pthread_mutex_unlock(&mu);
    errno = e;
}

void shim_mark(const char *json) {
    pthread_mutex_lock(&mu);
    init();
    logline("{\"call\":\"mark\",\"n\":%ld,\"mark\":%s}", counter, json);
    pthread_mutex_unlock(&mu);
}

long shim_count(void) { return counter; }

ssize_t write(int fd, const void *buf, size_t n) {
    pthread_mutex_lock(&mu);
    init();
    char p[600]; p[0] = 0;
    if (fd != logfd && fd_path(fd, p, sizeof p) && under_root(p)) {
        note_file(fd, p, 0);
        if (gate("write", p, NULL, (long)n) != 0) { pthread_mutex_unlock(&mu); return -1; }
    }
    pthread_mutex_unlock(&mu);
    ssize_t r = real_write(fd, buf, n);
    if (fd != logfd && under_root(p)) done("write", p, NULL, (long)n, r);
    return r;
}

ssize_t pwrite64(int fd, const void *buf, size_t n, off_t off) {
    pthread_mutex_lock(&mu);
    init();
    char p[600]; p[0] = 0;
    if (fd_path(fd, p, sizeof p) && under_root(p)) {
        note_file(fd, p, 0);
        if (gate("pwrite", p, NULL, (long)n) != 0) { pthread_mutex_unlock(&mu); return -1; }
    }
    pthread_mutex_unlock(&mu);
    ssize_t r = real_pwrite64(fd, buf, n, off);
    if (under_root(p)) done("pwrite", p, NULL, (long)n, r);
    return r;
}

static int sync_common(int fd, const char *name, int (*fn)(int)) {
    pthread_mutex_lock(&mu);
    init();
    char p[600];
    int counted = fd_path(fd, p, sizeof p) && under_root(p);
    if (counted && gate(name, p, NULL, 0) != 0) { pthread_mutex_unlock(&mu); return -1; }
    pthread_mutex_unlock(&mu);
    int r = fn(fd);
    if (counted && r == 0) { pthread_mutex_lock(&mu); note_file(fd, p, 1); pthread_mutex_unlock(&mu); }
    if (counted) done(name, p, NULL, 0, r);
    return r;
}
int fsync(int fd) { init(); return sync_common(fd, "fsync", real_fsync); }
int fdatasync(int fd) { init(); return sync_common(fd, "fdatasync", real_fdatasync); }

int link(const char *a, const char *b) {
    pthread_mutex_lock(&mu); init();
    char pa[1200], pb[1200]; abspath(AT_FDCWD, a, pa, sizeof pa); abspath(AT_FDCWD, b, pb, sizeof pb);
    if (under_root(pb) && gate("link", pa, pb, 0) != 0) { pthread_mutex_unlock(&mu); return -1; }
    pthread_mutex_unlock(&mu);
    int r = real_link(a, b);
    if (under_root(pb)) done("link", pa, pb, 0, r);
    return r;
}
int linkat(int d1, const char *a, int d2, const char *b, int flags) {
    pthread_mutex_lock(&mu); init();
    char pa[1200], pb[1200]; abspath(d1, a, pa, sizeof pa); abspath(d2, b, pb, sizeof pb);
    if (under_root(pb) && gate("link", pa, pb, 0) != 0) { pthread_mutex_unlock(&mu); return -1; }
    pthread_mutex_unlock(&mu);
    int r = real_linkat(d1, a, d2, b, flags);
    if (under_root(pb)) done("link", pa, pb, 0, r);
    return r;
}
// called with mu held, right after gate(): is this the rename to hold back?
static int stalled(const char *pa, const char *pb) {
    if (stall_at <= 0 || cur_n != stall_at) return 0;
    if (strncmp(rel(pa), "log.", 4) != 0 || strncmp(rel(pb), "trash/", 6) != 0) return 0;
    logline("{\"call\":\"stall\",\"n\":%ld,\"path\":\"%s\",\"path2\":\"%s\"}", cur_n, rel(pa), rel(pb));
    return 1;
}
static void renamed(const char *pa, const char *pb) {
    // keep inode->path bookkeeping for model (b)
    for (int s = 0; s < MAXINO; s++)
        if (inodes[s].used && strcmp(inodes[s].path, pa) == 0) { strncpy(inodes[s].path, pb, sizeof(inodes[s].path) - 1); }
}
int rename(const char *a, const char *b) {
    pthread_mutex_lock(&mu); init();
    char pa[1200], pb[1200]; abspath(AT_FDCWD, a, pa, sizeof pa); abspath(AT_FDCWD, b, pb, sizeof pb);
    int counted = under_root(pb) || under_root(pa);
    if (counted && gate("rename", pa, pb, 0) != 0) { pthread_mutex_unlock(&mu); return -1; }
    if (counted && stalled(pa, pb)) { pthread_mutex_unlock(&mu); return 0; }
    pthread_mutex_unlock(&mu);
    int r = real_rename(a, b);
    if (r == 0 && counted) { pthread_mutex_lock(&mu); renamed(pa, pb); pthread_mutex_unlock(&mu); }
    if (counted) done("rename", pa, pb, 0, r);
    return r;
}
int renameat(int d1, const char *a, int d2, const char *b) {
    pthread_mutex_lock(&mu); init();
    char pa[1200], pb[1200]; abspath(d1, a, pa, sizeof pa); abspath(d2, b, pb, sizeof pb);
    int counted = under_root(pb) || under_root(pa);
    if (counted && gate("rename", pa, pb, 0) != 0) { pthread_mutex_unlock(&mu); return -1; }
    if (counted && stalled(pa, pb)) { pthread_mutex_unlock(&mu); return 0; }
    pthread_mutex_unlock(&mu);
    int r = real_renameat(d1, a, d2, b);
    if (r == 0 && counted) { pthread_mutex_lock(&mu); renamed(pa, pb); pthread_mutex_unlock(&mu); }
    if (counted) done("rename", pa, pb, 0, r);
    return r;
}
int unlink(const char *a) {
    pthread_mutex_lock(&mu); init();
    char pa[1200]; abspath(AT_FDCWD, a, pa, sizeof pa);
    if (under_root(pa) && gate("unlink", pa, NULL, 0) != 0) { pthread_mutex_unlock(&mu); return -1; }
    pthread_mutex_unlock(&mu);
    int r = real_unlink(a);
    if (under_root(pa)) done("unlink", pa, NULL, 0, r);
    return r;
}
int unlinkat(int d, const char *a, int flags) {
    pthread_mutex_lock(&mu); init();
    char pa[1200]; abspath(d, a, pa, sizeof pa);
    if (under_root(pa) && gate((flags & AT_REMOVEDIR) ? "rmdir" : "unlink", pa, NULL, 0) != 0) { pthread_mutex_unlock(&mu); return -1; }
    pthread_mutex_unlock(&mu);
    int r = real_unlinkat(d, a, flags);
    if (under_root(pa)) done((flags & AT_REMOVEDIR) ? "rmdir" : "unlink", pa, NULL, 0, r);
    return r;
}
int mkdir(const char *a, mode_t m) {
    pthread_mutex_lock(&mu); init();
    char pa[1200]; abspath(AT_FDCWD, a, pa, sizeof pa);
    struct stat st;
    int counted = under_root(pa) && stat(pa, &st) != 0;
    if (counted && gate("mkdir", pa, NULL, 0) != 0) { pthread_mutex_unlock(&mu); return -1; }
    pthread_mutex_unlock(&mu);
    int r = real_mkdir(a, m);
    if (counted) done("mkdir", pa, NULL, 0, r);
    return r;
}
int rmdir(const char *a) {
    pthread_mutex_lock(&mu); init();
    char pa[1200]; abspath(AT_FDCWD, a, pa, sizeof pa);
    if (under_root(pa) && gate("rmdir", pa, NULL, 0) != 0) { pthread_mutex_unlock(&mu); return -1; }
    pthread_mutex_unlock(&mu);
    int r = real_rmdir(a);
    if (under_root(pa)) done("rmdir", pa, NULL, 0, r);
    return r;
}

static char creat_path[1200];
static int creat_gate(int dirfd, const char *path, int flags) {
    // counted only when the call creates the file; returns 1 counted, 0 not counted, -1 failed
    if (!(flags & O_CREAT)) return 0;
    abspath(dirfd, path, creat_path, sizeof creat_path);
    if (!under_root(creat_path)) return 0;
    struct stat st;
    if (stat(creat_path, &st) == 0) return 0;
    return gate("creat", creat_path, NULL, 0) == 0 ? 1 : -1;
}
int open(const char *path, int flags, ...) {
    mode_t mode = 0;
    if (flags & (O_CREAT | O_TMPFILE)) { va_list ap; va_start(ap, flags); mode = va_arg(ap, mode_t); va_end(ap); }
    pthread_mutex_lock(&mu); init();
    int cg = creat_gate(AT_FDCWD, path, flags);
    char cp[1200]; if (cg == 1) strcpy(cp, creat_path);
    if (cg < 0) { pthread_mutex_unlock(&mu); return -1; }
    pthread_mutex_unlock(&mu);
    int r = real_open(path, flags, mode);
    if (cg == 1) { pthread_mutex_lock(&mu); note_new(r, cp); pthread_mutex_unlock(&mu); done("creat", cp, NULL, 0, r); }
    return r;
}
int open64(const char *path, int flags, ...) {
    mode_t mode = 0;
    if (flags & (O_CREAT | O_TMPFILE)) { va_list ap; va_start(ap, flags); mode = va_arg(ap, mode_t); va_end(ap); }
    pthread_mutex_lock(&mu); init();
    int cg = creat_gate(AT_FDCWD, path, flags);
    char cp[1200]; if (cg == 1) strcpy(cp, creat_path);
    if (cg < 0) { pthread_mutex_unlock(&mu); return -1; }
    pthread_mutex_unlock(&mu);
    int r = real_open64(path, flags, mode);
    if (cg == 1) { pthread_mutex_lock(&mu); note_new(r, cp); pthread_mutex_unlock(&mu); done("creat", cp, NULL, 0, r); }
    return r;
}
int openat(int dirfd, const char *path, int flags, ...) {
    mode_t mode = 0;
    if (flags & (O_CREAT | O_TMPFILE)) { va_list ap; va_start(ap, flags); mode = va_arg(ap, mode_t); va_end(ap); }
    pthread_mutex_lock(&mu); init();
    int cg = creat_gate(dirfd, path, flags);
    char cp[1200]; if (cg == 1) strcpy(cp, creat_path);
    if (cg < 0) { pthread_mutex_unlock(&mu); return -1; }
    pthread_mutex_unlock(&mu);
    int r = real_openat(dirfd, path, flags, mode);
    if (cg == 1) { pthread_mutex_lock(&mu); note_new(r, cp); pthread_mutex_unlock(&mu); done("creat", cp, NULL, 0, r); }
    return r;
}
static int trunc_common(int fd, off_t len, int (*fn)(int, off_t)) {
    pthread_mutex_lock(&mu); init();
    char p[600]; p[0] = 0;
    int counted = fd_path(fd, p, sizeof p) && under_root(p);
    if (counted && gate("ftruncate", p, NULL, (long)len) != 0) { pthread_mutex_unlock(&mu); return -1; }
    pthread_mutex_unlock(&mu);
    int r = fn(fd, len);
    if (counted) done("ftruncate", p, NULL, (long)len, r);
    return r;
}
int ftruncate(int fd, off_t len) { init(); return trunc_common(fd, len, real_ftruncate); }
int ftruncate64(int fd, off_t len) { init(); return trunc_common(fd, len, real_ftruncate64); }
