//! Sequential executor for KeyValueStore / LsmTree histories (C01, C03, C04, C05, C08).
//!
//! Input: a JSON document {"mode": "kvs"|"tree", "opts": {flag: value}, "keyset": name, "pad": n,
//! "ops": [...]} ; output: one ndjson event per op with the projected abstract state (levels, new
//! files with their entries, point reads of every key, full scans), for TLC trace validation.
use crate::common::*;
use arrrg::CommandLine;
use lsmtk::{KeyValueStore, LsmTree, LsmtkOptions, WriteBatch};
use serde_json::{Value, json};
use sst::{Builder, Cursor, Sst, SstBuilder, SstOptions};
use std::collections::HashSet;
use std::io::Write;
use std::ops::Bound;
use std::panic::{AssertUnwindSafe, catch_unwind};
use std::path::{Path, PathBuf};

pub const KEYSETS: &[(&str, &[&str])] = &[
    ("plain", &["a", "b", "c", "d", "e", "f", "g", "h"]),
    ("prefix", &["a", "aa", "aaa", "ab", "b", "ba", "bb", "c"]),
    ("long", &["k0000000000000001", "k0000000000000002", "k0000000000000010", "k0000000000000011",
               "k0000000000000100", "k0000000000000101", "k00000000000001010", "k1"]),
];

pub struct Keys {
    pub names: Vec<Vec<u8>>,
}

impl Keys {
    pub fn new(name: &str, n: usize) -> Self {
        for (nm, ks) in KEYSETS {
            if *nm == name {
                return Keys { names: ks.iter().take(n).map(|s| s.as_bytes().to_vec()).collect() };
            }
        }
        tool_error(&format!("unknown keyset {name}"));
    }
    pub fn bytes(&self, k: i64) -> Vec<u8> {
        if k <= 0 {
            return vec![];
        }
        if k as usize > self.names.len() {
            return b"zzzz".to_vec();
        }
        self.names[(k - 1) as usize].clone()
    }
    pub fn index(&self, b: &[u8]) -> i64 {
        for (i, n) in self.names.iter().enumerate() {
            if n.as_slice() == b {
                return i as i64 + 1;
            }
        }
        -7
    }
}

fn value_of(id: i64, pad: usize) -> Vec<u8> {
    let mut v = format!("v{id}").into_bytes();
    v.push(b'|');
    v.resize(v.len() + pad, b'.');
    v
}

fn value_id(v: &[u8]) -> i64 {
    if v.is_empty() || v[0] != b'v' {
        return -2;
    }
    let end = v.iter().position(|c| *c == b'|').unwrap_or(v.len());
    if v[end..].iter().skip(1).any(|c| *c != b'.') {
        return -2;
    }
    std::str::from_utf8(&v[1..end]).ok().and_then(|s| s.parse().ok()).unwrap_or(-2)
}

fn options(root: &Path, opts: &Value) -> LsmtkOptions {
    let mut args: Vec<String> = vec!["--path".into(), root.to_string_lossy().to_string()];
    if let Some(m) = opts.as_object() {
        for (k, v) in m {
            args.push(format!("--{k}"));
            args.push(match v {
                Value::String(s) => s.clone(),
                x => x.to_string(),
            });
        }
    }
    let refs: Vec<&str> = args.iter().map(|s| s.as_str()).collect();
    let (o, free) = LsmtkOptions::from_arguments_relaxed("vh", &refs);
    if !free.is_empty() {
        tool_error(&format!("unparsed options {free:?}"));
    }
    o
}

enum Db {
    Kvs(Box<KeyValueStore>),
    Tree(Box<LsmTree>),
    Closed,
}

pub struct Exec {
    root: PathBuf,
    opts: Value,
    keys: Keys,
    pad: usize,
    db: Db,
    seen: HashSet<String>,
    ingest_counter: u64,
    mode: String,
    /// manifest edits already reported, per fragment file name
    mani_seen: std::collections::HashMap<String, usize>,
    /// scan cursors held open across later operations (C07); they borrow the boxed store
    held: std::collections::HashMap<u64, Box<dyn Cursor>>,
}

/// eight columns of a digest as [hi16, lo16] pairs (TLC integers are 32-bit)
fn cols_of_digest(d: &[u8; 32]) -> Vec<[u32; 2]> {
    (0..8).map(|i| {
        let c = u32::from_le_bytes(d[4 * i..4 * i + 4].try_into().unwrap());
        [c >> 16, c & 0xffff]
    }).collect()
}

fn cols_of_hex(h: &str) -> Option<Vec<[u32; 2]>> {
    setsum::Setsum::from_hexdigest(h).map(|s| cols_of_digest(&s.digest()))
}

fn err_string(e: &lsmtk::SError) -> String {
    let s = format!("{e:?}");
    s.chars().take(900).collect()
}

fn bound(keys: &Keys, v: &Value) -> Bound<Vec<u8>> {
    match v[0].as_str().unwrap() {
        "U" => Bound::Unbounded,
        "I" => Bound::Included(keys.bytes(v[1].as_i64().unwrap())),
        "E" => Bound::Excluded(keys.bytes(v[1].as_i64().unwrap())),
        x => tool_error(&format!("bound {x}")),
    }
}

impl Exec {
    fn tree(&self) -> Option<&LsmTree> {
        match &self.db {
            Db::Kvs(k) => Some(k.verif_tree()),
            Db::Tree(t) => Some(t),
            Db::Closed => None,
        }
    }

    fn open(&mut self) -> Result<(), String> {
        let o = options(&self.root, &self.opts);
        self.db = if self.mode == "kvs" {
            Db::Kvs(Box::new(KeyValueStore::open(o).map_err(|e| err_string(&e))?))
        } else {
            Db::Tree(Box::new(LsmTree::open(o).map_err(|e| err_string(&e))?))
        };
        Ok(())
    }

    fn read_file(&self, id: &str) -> Result<Vec<[i64; 3]>, String> {
        let path = self.root.join("sst").join(format!("{id}.sst"));
        let sst = Sst::<sst::file_manager::FileHandle>::new(SstOptions::default(), &path).map_err(|e| err_string(&e))?;
        let mut c = sst.cursor();
        c.seek_to_first().map_err(|e| err_string(&e))?;
        let mut out = vec![];
        loop {
            c.next().map_err(|e| err_string(&e))?;
            match c.key_value() {
                None => break,
                Some(kvr) => {
                    out.push([
                        self.keys.index(kvr.key),
                        kvr.timestamp as i64,
                        kvr.value.map(value_id).unwrap_or(0),
                    ]);
                }
            }
        }
        Ok(out)
    }

    /// the setsum columns of every entry of a file, each computed by sst::Setsum on that entry alone
    fn entry_hashes(&self, id: &str) -> Result<Vec<Vec<[u32; 2]>>, String> {
        let path = self.root.join("sst").join(format!("{id}.sst"));
        let sst = Sst::<sst::file_manager::FileHandle>::new(SstOptions::default(), &path).map_err(|e| err_string(&e))?;
        let mut c = sst.cursor();
        c.seek_to_first().map_err(|e| err_string(&e))?;
        let mut out = vec![];
        loop {
            c.next().map_err(|e| err_string(&e))?;
            match c.key_value() {
                None => break,
                Some(kvr) => {
                    let mut s = sst::Setsum::default();
                    s.insert(kvr);
                    out.push(cols_of_digest(&s.digest()));
                }
            }
        }
        Ok(out)
    }

    /// manifest transactions not reported before, in fragment order (MANIFEST.N ascending, then MANIFEST)
    fn manifest_txns(&mut self) -> Result<Vec<Value>, String> {
        let dir = self.root.join("mani");
        let mut frags: Vec<(u64, String)> = vec![];
        for e in std::fs::read_dir(&dir).map_err(|e| e.to_string())?.flatten() {
            let name = e.file_name().to_string_lossy().to_string();
            if name == "MANIFEST" {
                frags.push((u64::MAX, name));
            } else if let Some(n) = name.strip_prefix("MANIFEST.") {
                if let Ok(n) = n.parse::<u64>() {
                    frags.push((n, name));
                }
            }
        }
        frags.sort();
        let mut out = vec![];
        // A roll-over renames nothing: the old MANIFEST lives on as MANIFEST.N (same file) and a new
        // MANIFEST starts with the roll-up.  So the first backup not seen before continues where the
        // live file had been read up to; later new backups and the live file are read from the start.
        let mut live_seen = self.mani_seen.get("LIVE").copied().unwrap_or(0);
        for (n, name) in frags {
            let is_live = n == u64::MAX;
            if !is_live && self.mani_seen.contains_key(&name) {
                continue;
            }
            let it = mani::ManifestIterator::open(dir.join(&name)).map_err(|e| format!("{e:?}"))?;
            let mut idx = 0usize;
            for edit in it {
                let edit = edit.map_err(|e| format!("{e:?}"))?;
                if idx >= live_seen {
                    let ids = |it: &mut dyn Iterator<Item = &String>| -> Vec<String> { it.map(|s| s[..16.min(s.len())].to_string()).collect() };
                    let info = |c: char| edit.get_info(c).and_then(|h| cols_of_hex(h));
                    out.push(json!({"frag": name, "first": idx == 0, "added": ids(&mut edit.added()), "rmed": ids(&mut edit.rmed()),
                                    "I": info('I'), "O": info('O'), "D": info('D')}));
                }
                idx += 1;
            }
            if is_live {
                self.mani_seen.insert("LIVE".into(), idx);
            } else {
                self.mani_seen.insert(name, idx);
                live_seen = 0;
                self.mani_seen.insert("LIVE".into(), 0);
            }
        }
        Ok(out)
    }

    /// levels + entries of files not reported before
    fn project(&mut self, ev: &mut serde_json::Map<String, Value>) -> Result<(), String> {
        let levels = match self.tree() {
            Some(t) => t.verif_levels(),
            None => return Ok(()),
        };
        let mut lv = vec![];
        let mut newfiles = vec![];
        let mut meta = vec![];
        for level in levels.iter() {
            let mut ids = vec![];
            for md in level.iter() {
                let full = setsum::Setsum::from_digest(md.setsum).hexdigest();
                let id = full[..16].to_string();
                if !self.seen.contains(&id) {
                    let entries = self.read_file(&full)?;
                    let ehash = self.entry_hashes(&full)?;
                    newfiles.push(json!({"id": id, "entries": entries, "cols": cols_of_digest(&md.setsum), "ehash": ehash}));
                    self.seen.insert(id.clone());
                }
                meta.push(json!({"id": id, "fk": self.keys.index(&md.first_key), "lk": self.keys.index(&md.last_key),
                                 "mints": md.smallest_timestamp, "maxts": md.biggest_timestamp}));
                ids.push(id);
            }
            lv.push(ids);
        }
        ev.insert("levels".into(), json!(lv));
        ev.insert("newfiles".into(), json!(newfiles));
        ev.insert("meta".into(), json!(meta));
        if std::env::var("VH_SETSUM").is_ok() {
            let txns = self.manifest_txns()?;
            ev.insert("txns".into(), json!(txns));
        }
        Ok(())
    }

    fn get_code(&self, k: i64) -> Result<i64, String> {
        let key = self.keys.bytes(k);
        let mut tomb = false;
        let r = match &self.db {
            Db::Kvs(s) => s.load(&key, &mut tomb),
            Db::Tree(t) => t.load(&key, &mut tomb),
            Db::Closed => return Err("closed".into()),
        }
        .map_err(|e| err_string(&e))?;
        Ok(match r {
            Some(v) => value_id(&v),
            None => {
                if tomb {
                    0
                } else {
                    -1
                }
            }
        })
    }

    fn with_scan<R>(&self, lo: &Bound<Vec<u8>>, hi: &Bound<Vec<u8>>, f: impl FnOnce(&mut dyn Cursor) -> Result<R, String>) -> Result<R, String> {
        match &self.db {
            Db::Kvs(s) => {
                let mut c = s.range_scan(lo, hi).map_err(|e| err_string(&e))?;
                f(&mut c)
            }
            Db::Tree(t) => {
                let mut c = t.range_scan(lo, hi).map_err(|e| err_string(&e))?;
                f(&mut c)
            }
            Db::Closed => Err("closed".into()),
        }
    }

    fn obs(&self, c: &dyn Cursor) -> [i64; 3] {
        match c.key() {
            None => [0, 0, if c.value().is_some() { -3 } else { 0 }],
            Some(kr) => [self.keys.index(kr.key), kr.timestamp as i64, c.value().map(value_id).unwrap_or(0)],
        }
    }

    fn observe(&mut self, ev: &mut serde_json::Map<String, Value>) -> Result<(), String> {
        self.project(ev)?;
        let mut gets = vec![];
        for k in 1..=self.keys.names.len() as i64 {
            gets.push(self.get_code(k)?);
        }
        ev.insert("gets".into(), json!(gets));
        let u = Bound::Unbounded;
        let fwd = self.with_scan(&u, &u, |c| {
            let mut out = vec![];
            c.seek_to_first().map_err(|e| err_string(&e))?;
            for _ in 0..1000 {
                c.next().map_err(|e| err_string(&e))?;
                let o = self.obs(c);
                if o[0] == 0 {
                    break;
                }
                out.push(o);
            }
            Ok(out)
        })?;
        ev.insert("scan".into(), json!(fwd));
        let bwd = self.with_scan(&u, &u, |c| {
            let mut out = vec![];
            c.seek_to_last().map_err(|e| err_string(&e))?;
            for _ in 0..1000 {
                c.prev().map_err(|e| err_string(&e))?;
                let o = self.obs(c);
                if o[0] == 0 {
                    break;
                }
                out.push(o);
            }
            Ok(out)
        })?;
        ev.insert("rscan".into(), json!(bwd));
        Ok(())
    }

    fn l0_full(&self) -> bool {
        let thr = self.opts.get("l0-write-stall-threshold-files").and_then(|v| v.as_u64()).unwrap_or(12) as usize;
        match self.tree() {
            Some(t) => t.verif_levels()[0].len() >= thr,
            None => false,
        }
    }

    fn seq(&self) -> i64 {
        match &self.db {
            Db::Kvs(s) => s.verif_seq().0 as i64,
            _ => 0,
        }
    }

    fn step(&mut self, op: &Value, ev: &mut serde_json::Map<String, Value>) -> Result<(), String> {
        let name = op[0].as_str().unwrap().to_string();
        match name.as_str() {
            "put" | "del" | "batch" => {
                let Db::Kvs(s) = &self.db else { return Err("writes need kvs mode".into()) };
                let mut entries = vec![];
                if name == "batch" {
                    let mut wb = WriteBatch::default();
                    for e in op[1].as_array().unwrap() {
                        let (k, v) = (e[0].as_i64().unwrap(), e[1].as_i64().unwrap());
                        if v == 0 {
                            wb.del(&self.keys.bytes(k));
                        } else {
                            wb.put(&self.keys.bytes(k), &value_of(v, self.pad));
                        }
                        entries.push([k, v]);
                    }
                    s.write(wb).map_err(|e| err_string(&e))?;
                } else if name == "put" {
                    let (k, v) = (op[1].as_i64().unwrap(), op[2].as_i64().unwrap());
                    s.put(&self.keys.bytes(k), &value_of(v, self.pad)).map_err(|e| err_string(&e))?;
                    entries.push([k, v]);
                } else {
                    let k = op[1].as_i64().unwrap();
                    s.del(&self.keys.bytes(k)).map_err(|e| err_string(&e))?;
                    entries.push([k, 0]);
                }
                ev.insert("ev".into(), json!("write"));
                ev.insert("entries".into(), json!(entries));
                ev.insert("ts".into(), json!(self.seq()));
            }
            "flush" | "ingest" if self.l0_full() => {
                // a sequential driver would wait forever for a compaction thread (write stall)
                ev.insert("ev".into(), json!("skip"));
            }
            "flush" => {
                let Db::Kvs(s) = &self.db else { return Err("flush needs kvs mode".into()) };
                s.verif_flush_once().map_err(|e| err_string(&e))?;
                ev.insert("ev".into(), json!("flush"));
            }
            "ingest" => {
                let Db::Tree(t) = &self.db else { return Err("ingest needs tree mode".into()) };
                self.ingest_counter += 1;
                let path = self.root.join("ingest").join(format!("in{}.sst", self.ingest_counter));
                let _ = std::fs::remove_file(&path);
                let mut b = SstBuilder::new(SstOptions::default(), &path).map_err(|e| err_string(&e))?;
                for e in op[1].as_array().unwrap() {
                    let (k, ts, v) = (e[0].as_i64().unwrap(), e[1].as_i64().unwrap(), e[2].as_i64().unwrap());
                    if v == 0 {
                        b.del(&self.keys.bytes(k), ts as u64).map_err(|e| err_string(&e))?;
                    } else {
                        b.put(&self.keys.bytes(k), ts as u64, &value_of(v, self.pad)).map_err(|e| err_string(&e))?;
                    }
                }
                b.seal().map_err(|e| err_string(&e))?;
                t.ingest(&path).map_err(|e| err_string(&e))?;
                let _ = std::fs::remove_file(&path);
                ev.insert("ev".into(), json!("ingest"));
                ev.insert("entries".into(), op[1].clone());
            }
            "compact" => {
                let did = self.tree().ok_or("closed")?.verif_compact_once().map_err(|e| err_string(&e))?;
                ev.insert("ev".into(), json!("compact"));
                ev.insert("did".into(), json!(did));
            }
            "reopen" => {
                self.held.clear();
                self.db = Db::Closed;
                self.open()?;
                ev.insert("ev".into(), json!("reopen"));
            }
            "verify" => {
                let o = options(&self.root, &self.opts);
                let mut v = lsmtk::LsmVerifier::open(o).map_err(|e| err_string(&e))?;
                let verdict = match v.verify() {
                    Ok(()) => "ok".to_string(),
                    Err(e) => {
                        if lsmtk::error_code(&e) == Some(lsmtk::CODE_BACKOFF) {
                            "backoff".to_string()
                        } else {
                            err_string(&e)
                        }
                    }
                };
                ev.insert("ev".into(), json!("verify"));
                ev.insert("verdict".into(), json!(verdict));
            }
            "hold" => {
                // ["hold", id, lo, hi]: open a scan and keep the cursor
                let id = op[1].as_u64().unwrap();
                let lo = bound(&self.keys, &op[2]);
                let hi = bound(&self.keys, &op[3]);
                let c: Box<dyn Cursor + '_> = match &self.db {
                    Db::Kvs(s) => Box::new(s.range_scan(&lo, &hi).map_err(|e| err_string(&e))?),
                    Db::Tree(t) => Box::new(t.range_scan(&lo, &hi).map_err(|e| err_string(&e))?),
                    Db::Closed => return Err("closed".into()),
                };
                // SAFETY: the store is boxed and outlives the cursor: "reopen" drops held cursors first
                let c: Box<dyn Cursor + 'static> = unsafe { std::mem::transmute(c) };
                self.held.insert(id, c);
                ev.insert("ev".into(), json!("hold"));
                ev.insert("id".into(), json!(id));
                ev.insert("lo".into(), op[2].clone());
                ev.insert("hi".into(), op[3].clone());
            }
            "step" => {
                // ["step", id, [calls...]] on a held cursor
                let id = op[1].as_u64().unwrap();
                let calls = op[2].as_array().unwrap().clone();
                let keys = &self.keys;
                let Some(c) = self.held.get_mut(&id) else { return Err("no such held cursor".into()) };
                let mut out = vec![];
                for call in calls.iter() {
                    let r = match call[0].as_str().unwrap() {
                        "first" => c.seek_to_first(),
                        "last" => c.seek_to_last(),
                        "next" => c.next(),
                        "prev" => c.prev(),
                        "seek" => c.seek(&keys.bytes(call[1].as_i64().unwrap())),
                        x => tool_error(&format!("call {x}")),
                    };
                    r.map_err(|e| err_string(&e))?;
                    let o = match c.key() {
                        None => [0, 0, if c.value().is_some() { -3 } else { 0 }],
                        Some(kr) => [keys.index(kr.key), kr.timestamp as i64, c.value().map(value_id).unwrap_or(0)],
                    };
                    out.push(o);
                }
                ev.insert("ev".into(), json!("step"));
                ev.insert("id".into(), json!(id));
                ev.insert("calls".into(), op[2].clone());
                ev.insert("obs".into(), json!(out));
            }
            "drop" => {
                self.held.remove(&op[1].as_u64().unwrap());
                ev.insert("ev".into(), json!("drop"));
                ev.insert("id".into(), op[1].clone());
            }
            "scan" => {
                // ["scan", lo, hi, [calls...]]
                let lo = bound(&self.keys, &op[1]);
                let hi = bound(&self.keys, &op[2]);
                let calls = op[3].as_array().unwrap().clone();
                let keys = &self.keys;
                let obs = self.with_scan(&lo, &hi, |c| {
                    let mut out = vec![];
                    for call in calls.iter() {
                        let r = match call[0].as_str().unwrap() {
                            "first" => c.seek_to_first(),
                            "last" => c.seek_to_last(),
                            "next" => c.next(),
                            "prev" => c.prev(),
                            "seek" => c.seek(&keys.bytes(call[1].as_i64().unwrap())),
                            x => tool_error(&format!("call {x}")),
                        };
                        r.map_err(|e| err_string(&e))?;
                        out.push(self.obs(c));
                    }
                    Ok(out)
                })?;
                ev.insert("ev".into(), json!("scanprog"));
                ev.insert("lo".into(), op[1].clone());
                ev.insert("hi".into(), op[2].clone());
                ev.insert("calls".into(), op[3].clone());
                ev.insert("obs".into(), json!(obs));
            }
            x => tool_error(&format!("unknown op {x}")),
        }
        Ok(())
    }
}

/// Run one history; append events to `out`.  Returns number of events, and whether it aborted.
pub fn run_history(doc: &Value, root: &Path, out: &mut dyn Write, run_id: u64) -> (u64, Option<String>) {
    let _ = std::fs::remove_dir_all(root);
    let nkeys = doc["nkeys"].as_u64().unwrap_or(4) as usize;
    let mut ex = Exec {
        root: root.to_path_buf(),
        opts: doc["opts"].clone(),
        keys: Keys::new(doc["keyset"].as_str().unwrap_or("plain"), nkeys),
        pad: doc["pad"].as_u64().unwrap_or(0) as usize,
        db: Db::Closed,
        seen: HashSet::new(),
        ingest_counter: 0,
        mode: doc["mode"].as_str().unwrap_or("kvs").to_string(),
        mani_seen: Default::default(),
        held: Default::default(),
    };
    let mut n = 0u64;
    let mut emit = |ev: serde_json::Map<String, Value>, out: &mut dyn Write| {
        writeln!(out, "{}", Value::Object(ev)).unwrap();
    };
    // reset + open
    let mut ev = serde_json::Map::new();
    ev.insert("ev".into(), json!("open"));
    ev.insert("run".into(), json!(run_id));
    ev.insert("nkeys".into(), json!(nkeys));
    ev.insert("gc".into(), doc["opts"].get("gc-policy").cloned().unwrap_or(json!("versions = 1")));
    crate::shimmark::mark(&json!({"op": "open-begin", "nkeys": nkeys}));
    let r = catch_unwind(AssertUnwindSafe(|| ex.open().and_then(|_| ex.observe(&mut ev))));
    crate::shimmark::mark(&json!({"op": if matches!(r, Ok(Ok(()))) { "open-ack" } else { "open-err" }, "gets": ev.get("gets").cloned().unwrap_or(json!([]))}));
    let mut aborted = None;
    match r {
        Ok(Ok(())) => {}
        Ok(Err(e)) => {
            ev.insert("err".into(), json!(e));
            aborted = Some(e);
        }
        Err(_) => {
            ev.insert("err".into(), json!("panic"));
            aborted = Some("panic".into());
        }
    }
    emit(ev, out);
    n += 1;
    if aborted.is_some() {
        return (n, aborted);
    }
    for (i, op) in doc["ops"].as_array().unwrap().iter().enumerate() {
        let mut ev = serde_json::Map::new();
        ev.insert("i".into(), json!(i));
        ev.insert("op".into(), op.clone());
        crate::shimmark::mark(&json!({"op": "begin", "i": i, "opv": op}));
        let r = catch_unwind(AssertUnwindSafe(|| {
            ex.step(op, &mut ev)?;
            if !matches!(ev.get("ev").and_then(|x| x.as_str()), Some("scanprog") | Some("hold") | Some("step") | Some("drop")) {
                ex.observe(&mut ev)?;
            }
            Ok::<(), String>(())
        }));
        match r {
            Ok(Ok(())) => {}
            Ok(Err(e)) => {
                if !ev.contains_key("ev") {
                    ev.insert("ev".into(), json!(op[0]));
                }
                ev.insert("err".into(), json!(e.clone()));
                aborted = Some(e);
            }
            Err(p) => {
                let msg = if let Some(s) = p.downcast_ref::<String>() {
                    s.clone()
                } else if let Some(s) = p.downcast_ref::<&str>() {
                    s.to_string()
                } else {
                    "panic".to_string()
                };
                if !ev.contains_key("ev") {
                    ev.insert("ev".into(), json!(op[0]));
                }
                ev.insert("err".into(), json!(format!("panic: {msg}")));
                // the tree's own assertion that a level is sorted and disjoint (compute_bounds / level lookups)
                ev.insert("errclass".into(), json!(if msg.contains("this_level.ssts[") { "level-order-assert" } else { "other" }));
                aborted = Some(format!("panic: {msg}"));
            }
        }
        {
            let mut m = serde_json::Map::new();
            m.insert("op".into(), json!(if aborted.is_some() { "err" } else { "ack" }));
            m.insert("i".into(), json!(i));
            for k in ["ev", "gets", "scan", "err", "verdict", "did"] {
                if let Some(v) = ev.get(k) {
                    m.insert(k.into(), v.clone());
                }
            }
            crate::shimmark::mark(&Value::Object(m));
        }
        emit(ev, out);
        n += 1;
        if aborted.is_some() {
            break;
        }
    }
    ex.held.clear();
    ex.db = Db::Closed;
    crate::shimmark::mark(&json!({"op": "close"}));
    (n, aborted)
}

/// vh store-recover <doc.json> <root> <log>: reopen after a crash (fresh process), read everything back,
/// run the offline verifier twice, and append the outcome as a mark to the shim log.
pub fn recover(args: &[String]) -> ! {
    let doc: Value = serde_json::from_str(&std::fs::read_to_string(&args[0]).unwrap()).unwrap();
    let doc = if doc.is_array() { doc[0].clone() } else { doc };
    let root = PathBuf::from(&args[1]);
    std::panic::set_hook(Box::new(|_| {}));
    let nkeys = doc["nkeys"].as_u64().unwrap_or(4) as usize;
    let mut ex = Exec {
        root: root.clone(),
        opts: doc["opts"].clone(),
        keys: Keys::new(doc["keyset"].as_str().unwrap_or("plain"), nkeys),
        pad: doc["pad"].as_u64().unwrap_or(0) as usize,
        db: Db::Closed,
        seen: HashSet::new(),
        ingest_counter: 0,
        mode: doc["mode"].as_str().unwrap_or("kvs").to_string(),
        mani_seen: Default::default(),
        held: Default::default(),
    };
    let mut ev = serde_json::Map::new();
    let r = catch_unwind(AssertUnwindSafe(|| ex.open().and_then(|_| ex.observe(&mut ev))));
    let mut m = serde_json::Map::new();
    match r {
        Ok(Ok(())) => {
            m.insert("op".into(), json!("recovered"));
            m.insert("gets".into(), ev["gets"].clone());
            m.insert("scan".into(), ev["scan"].clone());
            // a verifier pass after recovery must accept (or back off), and change nothing
            ex.db = Db::Closed;
            let o = options(&root, &ex.opts);
            let verdict = match catch_unwind(AssertUnwindSafe(|| lsmtk::LsmVerifier::open(o).and_then(|mut v| v.verify()))) {
                Ok(Ok(())) => "ok".to_string(),
                Ok(Err(e)) => {
                    if lsmtk::error_code(&e) == Some(lsmtk::CODE_BACKOFF) { "backoff".to_string() } else { err_string(&e) }
                }
                Err(_) => "panic".to_string(),
            };
            m.insert("verdict".into(), json!(verdict));
            let mut ev2 = serde_json::Map::new();
            let r2 = catch_unwind(AssertUnwindSafe(|| ex.open().and_then(|_| ex.observe(&mut ev2))));
            m.insert("gets_after_verify".into(), if matches!(r2, Ok(Ok(()))) { ev2["gets"].clone() } else { json!("error") });
        }
        Ok(Err(e)) => {
            m.insert("op".into(), json!("recover-err"));
            m.insert("err".into(), json!(e));
        }
        Err(_) => {
            m.insert("op".into(), json!("recover-err"));
            m.insert("err".into(), json!("panic"));
        }
    }
    let mut f = std::fs::OpenOptions::new().create(true).append(true).open(&args[2]).unwrap();
    writeln!(f, "{}", json!({"call": "mark", "n": 0, "mark": Value::Object(m)})).unwrap();
    let mut rep = Report::default();
    rep.evaluations = 1;
    rep.finish()
}

pub fn main(args: &[String]) -> ! {
    // vh store-run <histories.json (array of docs, or ndjson)> <scratch root> <trace out>
    let text = std::fs::read_to_string(&args[0]).unwrap_or_else(|e| tool_error(&format!("{e}")));
    let docs: Vec<Value> = if text.trim_start().starts_with('[') {
        serde_json::from_str(&text).unwrap_or_else(|e| tool_error(&format!("{e}")))
    } else {
        text.lines().filter(|l| !l.trim().is_empty()).map(|l| serde_json::from_str(l).unwrap_or_else(|e| tool_error(&format!("{e}")))).collect()
    };
    let scratch = PathBuf::from(&args[1]);
    std::fs::create_dir_all(&scratch).ok();
    let mut out = std::io::BufWriter::new(std::fs::File::create(&args[2]).unwrap());
    std::panic::set_hook(Box::new(|_| {}));
    let mut rep = Report::default();
    for (i, doc) in docs.iter().enumerate() {
        let root = scratch.join(format!("db{i}"));
        inflight(doc);
        let (n, aborted) = run_history(doc, &root, &mut out, doc["run"].as_u64().unwrap_or(i as u64));
        rep.evaluations += 1;
        rep.steps += n;
        if let Some(a) = aborted {
            rep.known(&format!("aborted: {}", a.chars().take(80).collect::<String>()));
        }
        if std::env::var("VH_KEEP_DB").is_err() {
            let _ = std::fs::remove_dir_all(&root);
        }
    }
    out.flush().unwrap();
    rep.finish()
}

// ---------------------------------------------------------------------------------------------
// C04, rejection half: alter one recorded digest of one transaction; the offline verifiers must reject

fn copy_tree(src: &Path, dst: &Path) {
    let _ = std::fs::remove_dir_all(dst);
    std::fs::create_dir_all(dst).unwrap();
    for e in std::fs::read_dir(src).unwrap().flatten() {
        let p = e.path();
        let d = dst.join(e.file_name());
        if p.is_dir() {
            copy_tree(&p, &d);
        } else {
            std::fs::copy(&p, &d).unwrap();
        }
    }
}

/// vh store-tamper <doc.json> <scratch> <out.ndjson>
pub fn tamper(args: &[String]) -> ! {
    let text = std::fs::read_to_string(&args[0]).unwrap();
    let docs: Vec<Value> = serde_json::from_str(&text).unwrap();
    let scratch = PathBuf::from(&args[1]);
    std::fs::create_dir_all(&scratch).ok();
    let mut out = std::io::BufWriter::new(std::fs::File::create(&args[2]).unwrap());
    std::panic::set_hook(Box::new(|_| {}));
    let mut rep = Report::default();
    for (di, doc) in docs.iter().enumerate() {
        inflight(doc);
        let root = scratch.join("db");
        let mut sink = std::io::sink();
        let (_n, aborted) = run_history(doc, &root, &mut sink, di as u64);
        if aborted.is_some() {
            writeln!(out, "{}", json!({"ev": "tamper-skip", "run": di, "why": aborted})).unwrap();
            continue;
        }
        // fragments the verifier will process: all but the newest backup and the live MANIFEST
        let mdir = root.join("mani");
        let mut nums: Vec<u64> = std::fs::read_dir(&mdir).unwrap().flatten()
            .filter_map(|e| e.file_name().to_string_lossy().strip_prefix("MANIFEST.").and_then(|n| n.parse().ok())).collect();
        nums.sort();
        nums.pop();
        // baseline: the untampered copy must be accepted (or ask to back off)
        let verdict = |dir: &Path| -> String {
            let o = options(dir, &doc["opts"]);
            match catch_unwind(AssertUnwindSafe(|| lsmtk::LsmVerifier::open(o).and_then(|mut v| v.verify()))) {
                Ok(Ok(())) => "ok".into(),
                Ok(Err(e)) => if lsmtk::error_code(&e) == Some(lsmtk::CODE_BACKOFF) { "backoff".into() } else { "rejected".into() },
                Err(_) => "panic".into(),
            }
        };
        let work = scratch.join("tampered");
        copy_tree(&root, &work);
        writeln!(out, "{}", json!({"ev": "tamper-baseline", "run": di, "fragments": nums.len(), "lsm_verifier": verdict(&work)})).unwrap();
        let mut count = 0u64;
        for n in &nums {
            let name = format!("MANIFEST.{n}");
            let bytes = std::fs::read(mdir.join(&name)).unwrap();
            let text = String::from_utf8_lossy(&bytes).to_string();
            let lines: Vec<&str> = text.split('\n').collect();
            let mut edit_idx = 0usize;
            for (li, line) in lines.iter().enumerate() {
                if *line == "--------" {
                    edit_idx += 1;
                    continue;
                }
                if line.len() != 9 + 64 || !line[9..].chars().all(|c| c.is_ascii_hexdigit()) {
                    continue;
                }
                // flip one hex digit of the digest, keep the line's CRC valid
                let pos = 9 + (li * 7 + count as usize) % 64;
                let mut chars: Vec<char> = line.chars().collect();
                chars[pos] = if chars[pos] == '0' { '1' } else { '0' };
                let body: String = chars[8..].iter().collect();
                let newline = format!("{:08x}{}", crc32c::crc32c(body.as_bytes()), body);
                let mut newlines: Vec<String> = lines.iter().map(|s| s.to_string()).collect();
                newlines[li] = newline;
                copy_tree(&root, &work);
                std::fs::write(work.join("mani").join(&name), newlines.join("\n")).unwrap();
                let mv = match catch_unwind(AssertUnwindSafe(|| lsmtk::ManifestVerifier::open().and_then(|v| v.verify(&work.join("mani").join(&name))))) {
                    Ok(Ok(_)) => "ok",
                    Ok(Err(_)) => "rejected",
                    Err(_) => "panic",
                };
                let lv = verdict(&work);
                count += 1;
                rep.steps += 1;
                writeln!(out, "{}", json!({"ev": "tamper", "run": di, "frag": name, "line": li, "field": line[8..9], "first_edit": edit_idx == 0,
                                           "manifest_verifier": mv, "lsm_verifier": lv})).unwrap();
            }
        }
        rep.evaluations += 1;
        let _ = std::fs::remove_dir_all(&root);
        let _ = std::fs::remove_dir_all(&work);
    }
    out.flush().unwrap();
    rep.finish()
}
