//! sync42::state_hash_table against MC_StateTable.tla: every history of calls is replayed; outcomes compared
//! (values are identified by the order in which new ones appear).
use crate::common::*;
use serde_json::{Value, json};
use std::collections::HashMap;
use std::panic::{AssertUnwindSafe, catch_unwind};
use std::sync::atomic::{AtomicBool, AtomicU64, Ordering};
use sync42::state_hash_table::{Handle, StateHashTable, Value as ShtValue};

static NEXT: AtomicU64 = AtomicU64::new(1);

#[derive(Debug)]
struct Val { id: u64, finished: AtomicBool }
impl Default for Val { fn default() -> Self { Val { id: NEXT.fetch_add(1, Ordering::SeqCst), finished: AtomicBool::new(false) } } }
impl From<u64> for Val { fn from(_: u64) -> Self { Val::default() } }
impl ShtValue for Val { fn finished(&self) -> bool { self.finished.load(Ordering::SeqCst) } }

fn replay(hist: &[Value]) -> Option<Value> {
    let table: StateHashTable<u64, Val> = StateHashTable::new();
    // (slot, key) -> handle ; real value id -> model generation
    let mut held: HashMap<(u64, u64), Handle<u64, Val>> = HashMap::new();
    let mut gen_of: HashMap<u64, u64> = HashMap::new();
    let mut model_seen: HashMap<u64, u64> = HashMap::new();
    for (i, e) in hist.iter().enumerate() {
        let (op, t, k, g) = (e["op"].as_str().unwrap(), e["t"].as_u64().unwrap(), e["k"].as_u64().unwrap(), e["g"].as_u64().unwrap());
        let got: Option<Handle<u64, Val>> = match op {
            "create" => table.create_state(k),
            "get" => table.get_state(k),
            "goc" => Some(table.get_or_create_state(k)),
            "finish" => { held[&(t, k)].finished.store(true, Ordering::SeqCst); continue; }
            _ => { held.remove(&(t, k)); continue; }
        };
        // the model's generation g (0 = nothing) against the real value, up to a consistent renaming
        match (&got, g) {
            (None, 0) => {}
            (Some(h), g) if g != 0 => {
                let real = h.id;
                let a = *gen_of.entry(real).or_insert(g);
                let b = *model_seen.entry(g).or_insert(real);
                if a != g || b != real {
                    return Some(json!({"at": i, "op": op, "expected_generation": g, "observed_value": real, "known_as": a}));
                }
            }
            (got, g) => return Some(json!({"at": i, "op": op, "expected_generation": g, "observed": got.is_some()})),
        }
        if let Some(h) = got {
            // rendezvous: the same value as every other handle held for this key
            for ((_, k2), other) in held.iter() {
                if *k2 == k && !Handle::is_same(other, &h) { return Some(json!({"at": i, "op": op, "rendezvous": false})); }
            }
            held.insert((t, k), h);
        }
    }
    None
}

pub fn main(args: &[String]) -> ! {
    // vh stab-replay <tlc output>
    let (recs, bad) = read_replay_lines(&args[0], "STAB");
    if bad > 0 { tool_error(&format!("{bad} STAB lines did not parse")); }
    std::panic::set_hook(Box::new(|_| {}));
    let mut rep = Report::default();
    for rec in &recs {
        rep.evaluations += 1;
        let hist = rec.as_array().unwrap();
        rep.steps += hist.len() as u64;
        match catch_unwind(AssertUnwindSafe(|| replay(hist))) {
            Ok(None) => {}
            Ok(Some(m)) => { if rep.violations.len() < 20 { rep.violation(json!({"history": rec, "mismatch": m})); } }
            Err(_) => { if rep.violations.len() < 20 { rep.violation(json!({"history": rec, "mismatch": {"panic": true}})); } }
        }
    }
    rep.distinct = rep.evaluations;
    rep.finish()
}
