//! sync42::collector::Collector under seeded multi-threaded use; the merged event log is validated by TLC against
//! Trace_Collector.tla (grace-period rule of Collector.tla).  Stamps: `exit` after register/online/quiescent
//! returned, `enter` before quiescent/offline/drop is called, `collect` before collect() is called, `cleanup` inside
//! the closure.
use crate::common::*;
use serde_json::{Value, json};
use std::io::Write;
use std::sync::atomic::{AtomicU64, Ordering};
use std::sync::{Arc, Barrier, Mutex};
use sync42::collector::Collector;

static SEQ: AtomicU64 = AtomicU64::new(1);
fn stamp() -> u64 { SEQ.fetch_add(1, Ordering::SeqCst) }

fn xorshift(x: &mut u64) -> u64 { *x ^= *x << 13; *x ^= *x >> 7; *x ^= *x << 17; *x }

fn run(doc: &Value, out: &mut Vec<(u64, Value)>) {
    let threads = doc["threads"].as_u64().unwrap() as usize;
    let ops = doc["ops"].as_u64().unwrap();
    let seed = doc["seed"].as_u64().unwrap();
    let collector = Arc::new(Collector::new(threads));
    let cleaned: Arc<Mutex<Vec<(u64, u64)>>> = Arc::new(Mutex::new(vec![]));
    let barrier = Arc::new(Barrier::new(threads));
    let next_g = Arc::new(AtomicU64::new(1));
    let mut handles = vec![];
    for t in 0..threads {
        let (collector, cleaned, barrier, next_g) = (Arc::clone(&collector), Arc::clone(&cleaned), Arc::clone(&barrier), Arc::clone(&next_g));
        handles.push(std::thread::spawn(move || {
            let mut log: Vec<(u64, Value)> = vec![];
            let mut x = seed.wrapping_mul(0x9e3779b97f4a7c15) ^ ((t as u64 + 1) << 32) | 1;
            let t = t as u64 + 1;
            barrier.wait();
            let mut ts = collector.register_thread().expect("a slot per thread");
            log.push((stamp(), json!({"ev": "exit", "t": t})));
            for _ in 0..ops {
                match xorshift(&mut x) % 16 {
                    0..=6 => {
                        log.push((stamp(), json!({"ev": "enter", "t": t})));
                        ts.quiescent();
                        log.push((stamp(), json!({"ev": "exit", "t": t})));
                    }
                    7..=11 => {
                        let g = next_g.fetch_add(1, Ordering::SeqCst);
                        let cleaned = Arc::clone(&cleaned);
                        log.push((stamp(), json!({"ev": "collect", "t": t, "g": g})));
                        ts.collect(move || { cleaned.lock().unwrap().push((stamp(), g)); });
                    }
                    12 => {
                        log.push((stamp(), json!({"ev": "enter", "t": t})));
                        ts.offline();
                        for _ in 0..(xorshift(&mut x) % 4) { std::thread::yield_now(); }
                        ts.online();
                        log.push((stamp(), json!({"ev": "exit", "t": t})));
                    }
                    13 => {
                        // leave and come back: the slot is freed and taken again (possibly another one)
                        log.push((stamp(), json!({"ev": "enter", "t": t})));
                        drop(ts);
                        std::thread::yield_now();
                        ts = loop { if let Some(s) = collector.register_thread() { break s; } std::thread::yield_now(); };
                        log.push((stamp(), json!({"ev": "exit", "t": t})));
                    }
                    14 => std::thread::sleep(std::time::Duration::from_micros(xorshift(&mut x) % 50)),
                    _ => std::thread::yield_now(),
                }
            }
            // two full rounds of quiescent by everybody: afterwards nothing may be left
            for _ in 0..2 {
                barrier.wait();
                log.push((stamp(), json!({"ev": "enter", "t": t})));
                ts.quiescent();
                log.push((stamp(), json!({"ev": "exit", "t": t})));
            }
            barrier.wait();
            log
        }));
    }
    for h in handles {
        match h.join() {
            Ok(l) => out.extend(l),
            Err(_) => out.push((stamp(), json!({"ev": "panic"}))),
        }
    }
    for (s, g) in cleaned.lock().unwrap().iter() {
        out.push((*s, json!({"ev": "cleanup", "g": g})));
    }
    out.push((stamp(), json!({"ev": "end"})));
}

pub fn main(args: &[String]) -> ! {
    // vh collector-stress <docs.json> <trace.ndjson>
    let docs: Value = serde_json::from_str(&std::fs::read_to_string(&args[0]).unwrap_or_else(|e| tool_error(&format!("{e}")))).unwrap();
    let mut f = std::io::BufWriter::new(std::fs::File::create(&args[1]).unwrap());
    let mut rep = Report::default();
    for doc in docs.as_array().unwrap() {
        let mut evs: Vec<(u64, Value)> = vec![];
        run(doc, &mut evs);
        evs.sort_by_key(|e| e.0);
        writeln!(f, "{}", json!({"ev": "reset"})).unwrap();
        for (_, e) in evs.iter() {
            writeln!(f, "{e}").unwrap();
            rep.steps += 1;
        }
        rep.evaluations += 1;
    }
    f.flush().unwrap();
    rep.distinct = rep.evaluations;
    rep.finish()
}
