//! C16: replay TupleKey.tla's encodings against tuple_key and tuple_key2; round trips; hostile input.
use crate::common::*;
use prototk::FieldNumber;
use serde_json::{Value, json};
use std::panic::{AssertUnwindSafe, catch_unwind};
use tuple_key::{Direction, TupleKey, TupleKeyParser, TypedTupleKey};
use tuple_key_derive::TypedTupleKey;

/// A derived typed key: ascending u64, descending string (marker written ABOVE the field number), descending i64
/// (marker below), unit.  Universe tuples of exactly this shape are also encoded through the derive.
#[derive(Clone, Debug, Eq, PartialEq, TypedTupleKey)]
struct Derived {
    #[tuple_key(1)]
    a: u64,
    /// a doc comment between the two attributes
    #[reverse]
    #[tuple_key(2)]
    s: String,
    #[tuple_key(3)]
    #[reverse]
    n: i64,
    #[tuple_key(4)]
    u: (),
}

fn derived_of(tuple: &[Value]) -> Option<Derived> {
    let shape: Vec<(u64, &str, &str)> = tuple.iter().map(|e| (e["f"].as_u64().unwrap(), e["d"].as_str().unwrap(), e["v"]["t"].as_str().unwrap())).collect();
    if shape != vec![(1, "F", "u64"), (2, "R", "string"), (3, "R", "i64"), (4, "F", "unit")] { return None; }
    Some(Derived { a: bits_u64(&tuple[0]["v"]), s: String::from_utf8(bytes_of(&tuple[1]["v"]["bytes"])).ok()?, n: bits_u64(&tuple[2]["v"]) as i64, u: () })
}


fn bits_u64(v: &Value) -> u64 {
    v["bits"].as_array().unwrap().iter().fold(0u64, |a, b| (a << 1) | b.as_u64().unwrap())
}

fn bytes_of(v: &Value) -> Vec<u8> {
    v.as_array().unwrap().iter().map(|b| b.as_u64().unwrap() as u8).collect()
}

fn dir(e: &Value) -> Direction {
    if e["d"] == "R" { Direction::Reverse } else { Direction::Forward }
}

/// Encode with tuple_key; then parse back with the same field numbers, types and directions.
fn format1(tuple: &[Value]) -> Result<Vec<u8>, String> {
    let mut tk = TupleKey::default();
    for e in tuple {
        let f = FieldNumber::must(e["f"].as_u64().unwrap() as u32);
        let v = &e["v"];
        match v["t"].as_str().unwrap() {
            "unit" => tk.extend_with_key(f, (), dir(e)),
            "u32" => tk.extend_with_key(f, bits_u64(v) as u32, dir(e)),
            "u64" => tk.extend_with_key(f, bits_u64(v), dir(e)),
            "i32" => tk.extend_with_key(f, bits_u64(v) as u32 as i32, dir(e)),
            "i64" => tk.extend_with_key(f, bits_u64(v) as i64, dir(e)),
            "string" => tk.extend_with_key(f, String::from_utf8(bytes_of(&v["bytes"])).map_err(|_| "universe string not utf8")?, dir(e)),
            t => return Err(format!("type {t}")),
        }
    }
    let mut p = TupleKeyParser::new(&tk);
    for (n, e) in tuple.iter().enumerate() {
        let f = FieldNumber::must(e["f"].as_u64().unwrap() as u32);
        let v = &e["v"];
        let ok = match v["t"].as_str().unwrap() {
            "unit" => p.parse_next_with_key::<()>(f, dir(e)).is_ok(),
            "u32" => p.parse_next_with_key::<u32>(f, dir(e)) == Ok(bits_u64(v) as u32),
            "u64" => p.parse_next_with_key::<u64>(f, dir(e)) == Ok(bits_u64(v)),
            "i32" => p.parse_next_with_key::<i32>(f, dir(e)) == Ok(bits_u64(v) as u32 as i32),
            "i64" => p.parse_next_with_key::<i64>(f, dir(e)) == Ok(bits_u64(v) as i64),
            _ => p.parse_next_with_key::<String>(f, dir(e)).map(|s| s.into_bytes()) == Ok(bytes_of(&v["bytes"])),
        };
        if !ok {
            return Err(format!("format 1 does not decode element {n} back"));
        }
    }
    if p.peek_next() != Ok(None) {
        return Err("format 1 parser has elements left over".into());
    }
    Ok(tk.as_bytes().to_vec())
}

fn format2(tuple: &[Value]) -> Result<Vec<u8>, String> {
    let mut b = tuple_key2::TupleKey::builder();
    for e in tuple {
        let v = &e["v"];
        b = match v["t"].as_str().unwrap() {
            "unit" => b.unit(),
            "u32" => b.u32(bits_u64(v) as u32),
            "u64" => b.u64(bits_u64(v)),
            "i32" => b.i32(bits_u64(v) as u32 as i32),
            "i64" => b.i64(bits_u64(v) as i64),
            "string" => b.string(String::from_utf8(bytes_of(&v["bytes"])).map_err(|_| "universe string not utf8")?),
            _ => b.bytes(bytes_of(&v["bytes"])),
        };
    }
    let key = b.build();
    let mut p = key.parser();
    for (n, e) in tuple.iter().enumerate() {
        let v = &e["v"];
        let ok = match v["t"].as_str().unwrap() {
            "unit" => p.unit().is_ok(),
            "u32" => p.u32() == Ok(bits_u64(v) as u32),
            "u64" => p.u64() == Ok(bits_u64(v)),
            "i32" => p.i32() == Ok(bits_u64(v) as u32 as i32),
            "i64" => p.i64() == Ok(bits_u64(v) as i64),
            "string" => p.string().map(|s| s.into_bytes()) == Ok(bytes_of(&v["bytes"])),
            _ => p.bytes() == Ok(bytes_of(&v["bytes"])),
        };
        if !ok {
            return Err(format!("format 2 does not decode element {n} back"));
        }
    }
    p.finish().map_err(|e| format!("format 2 finish: {e}"))?;
    Ok(key.as_bytes().to_vec())
}

/// Decode hostile bytes with the tuple's own type sequence; Ok and Err are both fine, a panic is not.  For
/// format 2 a successful decode must re-encode to the very same bytes (the encoding is canonical).
fn hostile(tuple: &[Value], bytes: &[u8], fmt: u8) -> Option<String> {
    let r = catch_unwind(AssertUnwindSafe(|| -> Option<String> {
        if fmt == 1 {
            let tk = TupleKey::from(bytes);
            let mut p = TupleKeyParser::new(&tk);
            for e in tuple {
                let f = FieldNumber::must(e["f"].as_u64().unwrap() as u32);
                let ok = match e["v"]["t"].as_str().unwrap() {
                    "unit" => p.parse_next_with_key::<()>(f, dir(e)).is_ok(),
                    "u32" => p.parse_next_with_key::<u32>(f, dir(e)).is_ok(),
                    "u64" => p.parse_next_with_key::<u64>(f, dir(e)).is_ok(),
                    "i32" => p.parse_next_with_key::<i32>(f, dir(e)).is_ok(),
                    "i64" => p.parse_next_with_key::<i64>(f, dir(e)).is_ok(),
                    _ => p.parse_next_with_key::<String>(f, dir(e)).is_ok(),
                };
                if !ok { break; }
            }
            let _ = p.peek_next();
            let _ = tk.iter().count();
            None
        } else {
            let key = tuple_key2::TupleKey::from_bytes(bytes.to_vec());
            let _ = key.boundary_candidates();
            let mut p = key.parser();
            let mut b = tuple_key2::TupleKey::builder();
            for e in tuple {
                let next = match e["v"]["t"].as_str().unwrap() {
                    "unit" => p.unit().map(|_| b.clone().unit()),
                    "u32" => p.u32().map(|x| b.clone().u32(x)),
                    "u64" => p.u64().map(|x| b.clone().u64(x)),
                    "i32" => p.i32().map(|x| b.clone().i32(x)),
                    "i64" => p.i64().map(|x| b.clone().i64(x)),
                    "string" => p.string().map(|x| b.clone().string(x)),
                    _ => p.bytes().map(|x| b.clone().bytes(x)),
                };
                match next { Ok(nb) => b = nb, Err(_) => return None }
            }
            let consumed = p.offset();
            if p.finish().is_ok() && b.as_bytes() != &bytes[..consumed] {
                return Some("format 2 decoded a non-canonical encoding".into());
            }
            None
        }
    }));
    match r { Ok(x) => x, Err(_) => Some("panic".into()) }
}

pub fn main(args: &[String]) -> ! {
    // vh tkey-replay <tlc output> <tuples.ndjson>
    let (recs, bad) = read_replay_lines(&args[0], "TKEY");
    if bad > 0 { tool_error(&format!("{bad} TKEY lines did not parse")); }
    let tuples: std::collections::HashMap<u64, Value> = std::fs::read_to_string(&args[1]).unwrap().lines().filter(|l| !l.trim().is_empty())
        .map(|l| { let v: Value = serde_json::from_str(l).unwrap(); (v["id"].as_u64().unwrap(), v) }).collect();
    std::panic::set_hook(Box::new(|_| {}));
    let mut rep = Report::default();
    let mut x = 0x9E3779B97F4A7C15u64;
    for rec in &recs {
        rep.evaluations += 1;
        let t = &tuples[&rec["id"].as_u64().unwrap()];
        inflight(t);
        let tuple = t["tuple"].as_array().unwrap();
        let want1 = bytes_of(&rec["enc1"]);
        let want2 = bytes_of(&rec["enc2"]);
        let fmt1 = tuple.iter().all(|e| e["v"]["t"] != "bytes");
        let fmt2 = tuple.iter().all(|e| e["d"] == "F");
        let mut encs: Vec<(u8, Vec<u8>)> = vec![];
        if let Some(d) = derived_of(tuple) {
            rep.steps += 1;
            let r = catch_unwind(AssertUnwindSafe(|| {
                let tk: TupleKey = d.clone().into();
                let back = <Derived as TryFrom<TupleKey>>::try_from(tk.clone()).ok();
                (tk.as_bytes().to_vec(), back == Some(d.clone()))
            }));
            match r {
                Ok((b, rt)) if b == want1 && rt => {}
                Ok((b, rt)) => rep.violation(json!({"id": t["id"], "tuple": t["tuple"], "format": "derive", "expected": want1, "observed": b, "round_trip": rt})),
                Err(_) => rep.violation(json!({"id": t["id"], "tuple": t["tuple"], "format": "derive", "panic": true})),
            }
        }
        if fmt1 {
            rep.steps += 1;
            match catch_unwind(AssertUnwindSafe(|| format1(tuple))) {
                Ok(Ok(b)) if b == want1 => encs.push((1, b)),
                Ok(Ok(b)) => rep.violation(json!({"id": t["id"], "tuple": t["tuple"], "format": 1, "expected": want1, "observed": b})),
                Ok(Err(e)) => rep.violation(json!({"id": t["id"], "tuple": t["tuple"], "format": 1, "error": e})),
                Err(_) => rep.violation(json!({"id": t["id"], "tuple": t["tuple"], "format": 1, "panic": true})),
            }
        }
        if fmt2 {
            rep.steps += 1;
            match catch_unwind(AssertUnwindSafe(|| format2(tuple))) {
                Ok(Ok(b)) if b == want2 => encs.push((2, b)),
                Ok(Ok(b)) => rep.violation(json!({"id": t["id"], "tuple": t["tuple"], "format": 2, "expected": want2, "observed": b})),
                Ok(Err(e)) => rep.violation(json!({"id": t["id"], "tuple": t["tuple"], "format": 2, "error": e})),
                Err(_) => rep.violation(json!({"id": t["id"], "tuple": t["tuple"], "format": 2, "panic": true})),
            }
        }
        // hostile input derived from the valid encodings: every truncation, bit flips, random bytes
        for (fmt, enc) in &encs {
            let mut inputs: Vec<Vec<u8>> = (0..enc.len()).map(|n| enc[..n].to_vec()).collect();
            for i in 0..enc.len().min(24) {
                for bit in [0u8, 1, 4, 7] { let mut m = enc.clone(); m[i] ^= 1 << bit; inputs.push(m); }
                for b in [0u8, 0xff, 0x2b, 0x10, 0x18, 0x22, 0x2a] { let mut m = enc.clone(); m[i] = b; inputs.push(m); }
            }
            for _ in 0..8 {
                x ^= x << 13; x ^= x >> 7; x ^= x << 17;
                let n = (x % 12) as usize;
                inputs.push((0..n).map(|k| (x >> (k * 5)) as u8).collect());
            }
            let mut e2 = enc.clone(); e2.extend_from_slice(&[0xff, 0x00, 0x01]); inputs.push(e2);
            for inp in inputs {
                rep.steps += 1;
                if let Some(what) = hostile(tuple, &inp, *fmt) {
                    rep.violation(json!({"id": t["id"], "tuple": t["tuple"], "format": fmt, "hostile_input": inp, "what": what}));
                    break;
                }
            }
        }
        if rep.evaluations % 97 == 1 { rep.sample(json!({"id": t["id"], "enc1": want1, "enc2": want2})); }
    }
    rep.distinct = rep.evaluations;
    rep.finish()
}
