//! sync42::spin_lock::SpinLock under seeded multi-threaded use; the merged event log is validated by TLC against
//! Trace_SpinLock.tla (SpinLock.tla's actions).  Stamps: `enter` after lock() returned, `exit` before the guard is
//! dropped: the true holding interval contains the logged one.  The protected u64 is read, and written back as
//! v + 1 after a few yields, without atomics: a lost update shows as a repeated `v`.
use crate::common::*;
use serde_json::{Value, json};
use std::io::Write;
use std::sync::atomic::{AtomicU64, Ordering};
use std::sync::{Arc, Barrier};
use sync42::spin_lock::SpinLock;

static SEQ: AtomicU64 = AtomicU64::new(1);
fn stamp() -> u64 { SEQ.fetch_add(1, Ordering::SeqCst) }

fn xorshift(x: &mut u64) -> u64 { *x ^= *x << 13; *x ^= *x >> 7; *x ^= *x << 17; *x }

fn run(doc: &Value, out: &mut Vec<(u64, Value)>) {
    let threads = doc["threads"].as_u64().unwrap() as usize;
    let ops = doc["ops"].as_u64().unwrap();
    let seed = doc["seed"].as_u64().unwrap();
    let lock = Arc::new(SpinLock::new(0u64));
    let barrier = Arc::new(Barrier::new(threads));
    let mut handles = vec![];
    for t in 0..threads {
        let (lock, barrier) = (Arc::clone(&lock), Arc::clone(&barrier));
        handles.push(std::thread::spawn(move || {
            let mut log: Vec<(u64, Value)> = vec![];
            let mut x = seed.wrapping_mul(0x9e3779b97f4a7c15) ^ ((t as u64 + 1) << 32) | 1;
            let t = t as u64 + 1;
            barrier.wait();
            for _ in 0..ops {
                {
                    let mut g = lock.lock();
                    let v = *g;
                    log.push((stamp(), json!({"ev": "enter", "t": t, "v": v})));
                    for _ in 0..(xorshift(&mut x) % 3) { std::thread::yield_now(); }
                    *g = v + 1;
                    log.push((stamp(), json!({"ev": "exit", "t": t})));
                }
                match xorshift(&mut x) % 8 {
                    0 => std::thread::sleep(std::time::Duration::from_micros(xorshift(&mut x) % 30)),
                    1..=3 => std::thread::yield_now(),
                    _ => {}
                }
            }
            log
        }));
    }
    for h in handles {
        match h.join() {
            Ok(l) => out.extend(l),
            Err(_) => out.push((stamp(), json!({"ev": "panic"}))),
        }
    }
    let n = *lock.lock();
    out.push((stamp(), json!({"ev": "end", "n": n})));
}

pub fn main(args: &[String]) -> ! {
    // vh spinlock-stress <docs.json> <trace.ndjson>
    let docs: Value = serde_json::from_str(&std::fs::read_to_string(&args[0]).unwrap_or_else(|e| tool_error(&format!("{e}")))).unwrap();
    let mut f = std::io::BufWriter::new(std::fs::File::create(&args[1]).unwrap());
    let mut rep = Report::default();
    for doc in docs.as_array().unwrap() {
        let mut evs: Vec<(u64, Value)> = vec![];
        run(doc, &mut evs);
        evs.sort_by_key(|e| e.0);
        writeln!(f, "{}", json!({"ev": "reset"})).unwrap();
        for (_, e) in evs.iter() {
            writeln!(f, "{e}").unwrap();
            rep.steps += 1;
        }
        rep.evaluations += 1;
    }
    f.flush().unwrap();
    rep.distinct = rep.evaluations;
    rep.finish()
}
