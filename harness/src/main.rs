mod common;
mod cursor;
mod store;
mod skip;
mod conc;
mod table;
mod sync_replay;
mod log_replay;
mod shimmark;
mod mani_run;
mod setsum_replay;
mod damage;

fn main() {
    let args: Vec<String> = std::env::args().collect();
    if args.len() < 2 {
        common::tool_error("usage: vh <subcommand> ...");
    }
    match args[1].as_str() {
        "cursor-replay" => cursor::main(&args[2..]),
        "store-run" => store::main(&args[2..]),
        "conc-stress" => conc::main(&args[2..]),
        "skip-stress" => skip::main(&args[2..]),
        "ingest-stress" => conc::ingest_stress(&args[2..]),
        "lru-replay" => sync_replay::lru(&args[2..]),
        "coalesce-stress" => sync_replay::coalesce(&args[2..]),
        "store-recover" => store::recover(&args[2..]),
        "store-tamper" => store::tamper(&args[2..]),
        "log-replay" => log_replay::main(&args[2..]),
        "mani-run" => mani_run::run(&args[2..]),
        "mani-recover" => mani_run::recover(&args[2..]),
        "mani-cuts" => mani_run::cuts(&args[2..]),
        "damage-run" => damage::main(&args[2..]),
        "setsum-replay" => setsum_replay::main(&args[2..]),
        x => common::tool_error(&format!("unknown subcommand {x}")),
    }
}
