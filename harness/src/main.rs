mod common;
mod cursor;

fn main() {
    let args: Vec<String> = std::env::args().collect();
    if args.len() < 2 {
        common::tool_error("usage: vh <subcommand> ...");
    }
    match args[1].as_str() {
        "cursor-replay" => cursor::main(&args[2..]),
        x => common::tool_error(&format!("unknown subcommand {x}")),
    }
}
