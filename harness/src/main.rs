mod common;
mod cursor;
mod store;
mod skip;
mod conc;
mod table;
mod sync_replay;
mod log_replay;
mod shimmark;
mod mani_run;
mod setsum_replay;
mod damage;
mod tkey;
mod wire;
mod text;
mod logconc;
mod stab;
mod collector;
mod spinlock;
mod cleanup;

/// No single allocation above the limit: a reader that sizes a buffer from damaged bytes must not take the
/// machine down; the request fails, Rust aborts, and the abort is reported with the case in flight (C09).
struct Guard;
static ALLOC_LIMIT: std::sync::atomic::AtomicUsize = std::sync::atomic::AtomicUsize::new(4 << 30);
unsafe impl std::alloc::GlobalAlloc for Guard {
    unsafe fn alloc(&self, l: std::alloc::Layout) -> *mut u8 {
        if l.size() > ALLOC_LIMIT.load(std::sync::atomic::Ordering::Relaxed) { return std::ptr::null_mut(); }
        unsafe { std::alloc::System.alloc(l) }
    }
    unsafe fn alloc_zeroed(&self, l: std::alloc::Layout) -> *mut u8 {
        if l.size() > ALLOC_LIMIT.load(std::sync::atomic::Ordering::Relaxed) { return std::ptr::null_mut(); }
        unsafe { std::alloc::System.alloc_zeroed(l) }
    }
    unsafe fn dealloc(&self, p: *mut u8, l: std::alloc::Layout) { unsafe { std::alloc::System.dealloc(p, l) } }
    unsafe fn realloc(&self, p: *mut u8, l: std::alloc::Layout, n: usize) -> *mut u8 {
        if n > ALLOC_LIMIT.load(std::sync::atomic::Ordering::Relaxed) { return std::ptr::null_mut(); }
        unsafe { std::alloc::System.realloc(p, l, n) }
    }
}
#[global_allocator]
static GLOBAL: Guard = Guard;

fn main() {
    let args: Vec<String> = std::env::args().collect();
    if args.len() < 2 {
        common::tool_error("usage: vh <subcommand> ...");
    }
    match args[1].as_str() {
        "cursor-replay" => cursor::main(&args[2..]),
        "store-run" => store::main(&args[2..]),
        "conc-stress" => conc::main(&args[2..]),
        "skip-stress" => skip::main(&args[2..]),
        "ingest-stress" => conc::ingest_stress(&args[2..]),
        "lru-replay" => sync_replay::lru(&args[2..]),
        "coalesce-stress" => sync_replay::coalesce(&args[2..]),
        "store-recover" => store::recover(&args[2..]),
        "store-tamper" => store::tamper(&args[2..]),
        "log-replay" => log_replay::main(&args[2..]),
        "mani-run" => mani_run::run(&args[2..]),
        "mani-recover" => mani_run::recover(&args[2..]),
        "mani-cuts" => mani_run::cuts(&args[2..]),
        "stab-replay" => stab::main(&args[2..]),
        "collector-stress" => collector::main(&args[2..]),
        "spinlock-stress" => spinlock::main(&args[2..]),
        "cleanup-replay" => cleanup::main(&args[2..]),
        "logconc-stress" => logconc::main(&args[2..]),
        "text-replay" => text::main(&args[2..]),
        "wire-replay" => wire::main(&args[2..]),
        "tkey-replay" => tkey::main(&args[2..]),
        "damage-run" => damage::main(&args[2..]),
        "setsum-replay" => setsum_replay::main(&args[2..]),
        x => common::tool_error(&format!("unknown subcommand {x}")),
    }
}
