//! C17: stress runs of skipfree::SkipList and listfree::List, events stamped by one atomic counter,
//! for validation against Trace_SkipList.tla.
use crate::common::*;
use serde_json::{Value, json};
use std::io::Write;
use std::sync::atomic::{AtomicU64, Ordering};
use std::sync::{Arc, Mutex};

fn run_skip<const H: usize>(doc: &Value, log: &Arc<Mutex<Vec<Value>>>, seq: &Arc<AtomicU64>) -> bool {
    let inserters = doc["inserters"].as_u64().unwrap_or(2);
    let readers = doc["readers"].as_u64().unwrap_or(2);
    let nkeys = doc["nkeys"].as_u64().unwrap_or(24);
    let pattern = doc["pattern"].as_str().unwrap_or("asc").to_string();
    let sl = Arc::new(skipfree::SkipList::<u64, u64, H>::default());
    let finished = Arc::new(AtomicU64::new(0));
    let stop = Arc::new(AtomicU64::new(0));
    let mut handles = vec![];
    for t in 0..inserters {
        let (sl, log, seq, finished, pattern) = (Arc::clone(&sl), Arc::clone(log), Arc::clone(seq), Arc::clone(&finished), pattern.clone());
        handles.push(std::thread::spawn(move || {
            // thread t owns keys congruent to t modulo the number of inserters: neighbours collide
            let mut mine: Vec<u64> = (1..=nkeys).filter(|k| k % inserters == t).collect();
            match pattern.as_str() {
                "desc" => mine.reverse(),
                "mixed" => { let n = mine.len(); for i in 0..n / 2 { if i % 2 == 0 { mine.swap(i, n - 1 - i); } } }
                _ => {}
            }
            // events are kept per thread (no shared lock between operations) and merged by their stamps
            let mut local = vec![];
            for k in mine {
                let n = seq.fetch_add(1, Ordering::SeqCst);
                local.push(json!({"n": n, "ev": "ib", "k": k}));
                sl.insert(k, k * 10);
                let n = seq.fetch_add(1, Ordering::SeqCst);
                local.push(json!({"n": n, "ev": "ie", "k": k}));
            }
            log.lock().unwrap().extend(local);
            finished.fetch_add(1, Ordering::SeqCst);
        }));
    }
    for r in 0..readers {
        let (sl, log, seq, stop) = (Arc::clone(&sl), Arc::clone(log), Arc::clone(seq), Arc::clone(&stop));
        handles.push(std::thread::spawn(move || {
            let mut x = 0x9E3779B97F4A7C15u64 ^ (r + 7);
            let mut rounds = 0;
            let mut local = vec![];
            while (stop.load(Ordering::SeqCst) == 0 && rounds < 400) || rounds < 3 {
                rounds += 1;
                std::thread::yield_now();
                x ^= x << 13; x ^= x >> 7; x ^= x << 17;
                let kind = x % 4;
                let n0 = seq.fetch_add(1, Ordering::SeqCst);
                let mut it = sl.iter();
                let ev = match kind {
                    0 => {
                        let mut ks = vec![];
                        it.seek_to_first();
                        while it.is_valid() && ks.len() < 10000 {
                            ks.push(*it.key());
                            if *it.value() != *it.key() * 10 { ks.push(0); }
                            it.next();
                        }
                        json!({"ev": "iter", "dir": "fwd", "keys": ks})
                    }
                    1 => {
                        let mut ks = vec![];
                        it.seek_to_last();
                        it.prev();
                        while it.is_valid() && ks.len() < 10000 {
                            ks.push(*it.key());
                            it.prev();
                        }
                        json!({"ev": "iter", "dir": "bwd", "keys": ks})
                    }
                    2 => {
                        let k = (x >> 8) % (nkeys + 2);
                        it.seek(&k);
                        let got = if it.is_valid() { *it.key() } else { 0 };
                        json!({"ev": "seek", "k": k, "got": got})
                    }
                    _ => {
                        let k = 1 + (x >> 8) % nkeys;
                        json!({"ev": "contains", "k": k, "got": sl.contains(&k)})
                    }
                };
                let n1 = seq.fetch_add(1, Ordering::SeqCst);
                let mut ev = ev;
                ev["n"] = json!(n1);
                ev["begin"] = json!(n0);
                ev["r"] = json!(r + 1);
                local.push(json!({"n": n0, "ev": "rb", "r": r + 1}));
                local.push(ev);
            }
            log.lock().unwrap().extend(local);
        }));
    }
    let start = std::time::Instant::now();
    let mut hung = false;
    while finished.load(Ordering::SeqCst) < inserters {
        if start.elapsed().as_secs() > 60 { hung = true; break; }
        std::thread::sleep(std::time::Duration::from_millis(1));
    }
    stop.store(1, Ordering::SeqCst);
    if !hung {
        for h in handles { let _ = h.join(); }
        // the final state: everything, in order
        let mut it = sl.iter();
        let mut ks = vec![];
        it.seek_to_first();
        while it.is_valid() { ks.push(*it.key()); it.next(); }
        let n = seq.fetch_add(1, Ordering::SeqCst);
        log.lock().unwrap().push(json!({"n": n, "ev": "final", "keys": ks, "nkeys": nkeys}));
        run_lifetime::<H>(log, seq, 1 + nkeys % 7);
    }
    hung
}

// "An iterator remains valid for as long as it is held": keys count their own deallocation, so that a
// body freed under a held iterator is observed without touching freed memory.
static DROPS: AtomicU64 = AtomicU64::new(0);
#[derive(Default, PartialEq, Eq, PartialOrd, Ord)]
struct Tracked(u64);
impl Drop for Tracked {
    fn drop(&mut self) { DROPS.fetch_add(1, Ordering::SeqCst); }
}

fn run_lifetime<const H: usize>(log: &Arc<Mutex<Vec<Value>>>, seq: &Arc<AtomicU64>, nkeys: u64) {
    let sl = skipfree::SkipList::<Tracked, u64, H>::default();
    for k in 1..=nkeys { sl.insert(Tracked(k), k); }
    let mut it = sl.iter();
    it.seek_to_first();
    let d0 = DROPS.load(Ordering::SeqCst);
    drop(sl);
    let d1 = DROPS.load(Ordering::SeqCst);
    let n = seq.fetch_add(1, Ordering::SeqCst);
    log.lock().unwrap().push(json!({"n": n, "ev": "droplist", "held": 1, "freed": d1 - d0, "nkeys": nkeys}));
    if d1 == d0 {
        let mut ks = vec![];
        while it.is_valid() { ks.push(it.key().0); it.next(); }
        let n = seq.fetch_add(1, Ordering::SeqCst);
        log.lock().unwrap().push(json!({"n": n, "ev": "helditer", "keys": ks, "nkeys": nkeys}));
    }
    drop(it);
    let d2 = DROPS.load(Ordering::SeqCst);
    let n = seq.fetch_add(1, Ordering::SeqCst);
    log.lock().unwrap().push(json!({"n": n, "ev": "dropiter", "freed": d2 - d0, "nkeys": nkeys}));
}

fn run_list(doc: &Value, log: &Arc<Mutex<Vec<Value>>>, seq: &Arc<AtomicU64>) -> bool {
    let threads = doc["inserters"].as_u64().unwrap_or(3);
    let per = doc["nkeys"].as_u64().unwrap_or(20);
    let list = Arc::new(listfree::List::<u64>::default());
    let mut handles = vec![];
    for t in 0..threads {
        let (list, log, seq) = (Arc::clone(&list), Arc::clone(log), Arc::clone(seq));
        handles.push(std::thread::spawn(move || {
            let mut local = vec![];
            for i in 0..per {
                let v = t * 1000 + i + 1;
                let n = seq.fetch_add(1, Ordering::SeqCst);
                local.push(json!({"n": n, "ev": "ib", "k": v}));
                list.prepend(v);
                let n = seq.fetch_add(1, Ordering::SeqCst);
                local.push(json!({"n": n, "ev": "ie", "k": v}));
                if i % 3 == 0 {
                    let n0 = seq.fetch_add(1, Ordering::SeqCst);
                    let ks: Vec<u64> = list.iter().copied().collect();
                    let n1 = seq.fetch_add(1, Ordering::SeqCst);
                    local.push(json!({"n": n0, "ev": "rb", "r": t + 1}));
                    local.push(json!({"n": n1, "ev": "liter", "r": t + 1, "keys": ks}));
                }
            }
            log.lock().unwrap().extend(local);
        }));
    }
    for h in handles { let _ = h.join(); }
    let ks: Vec<u64> = list.iter().copied().collect();
    let n = seq.fetch_add(1, Ordering::SeqCst);
    log.lock().unwrap().push(json!({"n": n, "ev": "lfinal", "keys": ks, "nkeys": threads * per}));
    false
}

pub fn main(args: &[String]) -> ! {
    // vh skip-stress <doc.json> <out.ndjson>
    let doc: Value = serde_json::from_str(&std::fs::read_to_string(&args[0]).unwrap()).unwrap();
    inflight(&doc);
    skipfree::verif::set_yield_seed(doc["yield_seed"].as_u64().unwrap_or(0));
    listfree::verif::set_yield_seed(doc["yield_seed"].as_u64().unwrap_or(0));
    let seq = Arc::new(AtomicU64::new(1));
    let log = Arc::new(Mutex::new(Vec::<Value>::new()));
    let hung = match (doc["kind"].as_str().unwrap_or("skip"), doc["height"].as_u64().unwrap_or(2)) {
        ("list", _) => run_list(&doc, &log, &seq),
        (_, 1) => run_skip::<1>(&doc, &log, &seq),
        (_, 2) => run_skip::<2>(&doc, &log, &seq),
        (_, 3) => run_skip::<3>(&doc, &log, &seq),
        _ => run_skip::<12>(&doc, &log, &seq),
    };
    let mut events = log.lock().unwrap().clone();
    events.sort_by_key(|e| e["n"].as_u64().unwrap());
    let mut f = std::io::BufWriter::new(std::fs::File::create(&args[1]).unwrap());
    writeln!(f, "{}", json!({"n": 0, "ev": "start", "kind": doc["kind"].as_str().unwrap_or("skip"), "readers": doc["readers"].as_u64().unwrap_or(2).max(doc["inserters"].as_u64().unwrap_or(3))})).unwrap();
    for e in &events { writeln!(f, "{e}").unwrap(); }
    writeln!(f, "{}", json!({"n": seq.load(Ordering::SeqCst), "ev": if hung { "hang" } else { "end" }})).unwrap();
    f.flush().unwrap();
    println!("RESULT {}", json!({"evaluations": 1, "steps": events.len(), "distinct": 1, "known": {}, "violations": [], "samples": [], "extra": {"hung": hung}}));
    std::process::exit(0);
}
