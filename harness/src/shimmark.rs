//! Talk to the LD_PRELOAD shim (if loaded): application-level marks interleaved with system calls.
use std::ffi::CString;

pub fn mark(v: &serde_json::Value) {
    unsafe {
        let name = CString::new("shim_mark").unwrap();
        let f = libc::dlsym(libc::RTLD_DEFAULT, name.as_ptr());
        if f.is_null() {
            return;
        }
        let f: extern "C" fn(*const libc::c_char) = std::mem::transmute(f);
        let s = CString::new(v.to_string()).unwrap();
        f(s.as_ptr());
    }
}
