//! C10: facts about a sealed block / SST beyond cursor movement (TableFacts of MC_Cursor):
//! timestamped point lookups, metadata, refusal of entries that are not strictly after the last one.
use crate::common::*;
use crate::cursor::{Ctx, build_block, sst_options};
use serde_json::{Value, json};
use sst::{Builder, Sst, SstBuilder};
use std::panic::{AssertUnwindSafe, catch_unwind};

fn code_of(key: &[u8], found: Option<(u64, Option<Vec<u8>>)>, k: i64) -> i64 {
    // the specification's Code: k*100 + ts*10 + v ; the load API does not return the timestamp, so the
    // comparison is on (present?, tombstone?, value bytes) and the timestamp is recovered from the value
    let _ = key;
    match found {
        None => 0,
        Some((_, None)) => -1 - k, // tombstone marker, compared separately
        Some((ts, Some(_))) => k * 100 + ts as i64 * 10 + 1,
    }
}

pub fn check_table(ctx: &mut Ctx, t: &Value, steps: &mut u64) -> Option<Value> {
    let entries: Vec<(i64, i64, i64)> = t["s"].as_array().unwrap().iter()
        .map(|e| (e["k"].as_i64().unwrap(), e["ts"].as_i64().unwrap(), e["v"].as_i64().unwrap())).collect();
    let r = catch_unwind(AssertUnwindSafe(|| -> Option<Value> {
        // load() through whichever table kind this run builds
        let loader: Box<dyn Fn(&[u8], u64) -> Result<(Option<Vec<u8>>, bool), String>>;
        let mut meta: Option<(Vec<u8>, Vec<u8>, u64, u64, [u8; 32])> = None;
        if ctx.block_leaves.is_some() {
            let block = build_block(ctx, &entries);
            loader = Box::new(move |k, ts| {
                let mut tomb = false;
                block.load(k, ts, &mut tomb).map(|v| (v, tomb)).map_err(|e| format!("{e:?}"))
            });
        } else {
            if entries.is_empty() {
                return None; // an SST cannot be empty
            }
            ctx.counter += 1;
            let path = ctx.dir.join(format!("facts{}.sst", ctx.counter));
            let mut b = SstBuilder::new(sst_options(ctx), &path).unwrap();
            for (k, ts, v) in &entries {
                if *v == 0 { b.del(&key_bytes(*k), *ts as u64).unwrap(); } else { b.put(&key_bytes(*k), *ts as u64, &value_bytes(*k, *ts)).unwrap(); }
            }
            // refused appends: anything not strictly after the last entry, with an error, leaving nothing behind
            for r in t["refuse"].as_array().unwrap() {
                let (k, ts) = (r[0].as_i64().unwrap(), r[1].as_i64().unwrap());
                *steps += 1;
                if b.put(&key_bytes(k), ts as u64, b"intruder").is_ok() {
                    return Some(json!({"accepted_out_of_order": [k, ts]}));
                }
            }
            let sst = b.seal().unwrap();
            let md = sst.metadata().unwrap();
            let on_disk = std::fs::metadata(&path).unwrap().len();
            if md.file_size != on_disk {
                return Some(json!({"file_size": md.file_size, "on_disk": on_disk}));
            }
            meta = Some((md.first_key.clone(), md.last_key.clone(), md.smallest_timestamp, md.biggest_timestamp, md.setsum));
            let sst2 = Sst::<sst::file_manager::FileHandle>::new(sst_options(ctx), &path).unwrap();
            let _ = std::fs::remove_file(&path);
            loader = Box::new(move |k, ts| {
                let mut tomb = false;
                sst2.load(k, ts, &mut tomb).map(|v| (v, tomb)).map_err(|e| format!("{e:?}"))
            });
        }
        for l in t["loads"].as_array().unwrap() {
            let (k, ts, want) = (l[0].as_i64().unwrap(), l[1].as_i64().unwrap(), l[2].as_i64().unwrap());
            if k == 0 && std::env::var("VH_KEYSET").as_deref() == Ok("empty1") {
                continue; // with this key set the empty key is key 1 itself, not "a key before every key"
            }
            *steps += 1;
            let got = match loader(&key_bytes(k), ts as u64) {
                Ok(g) => g,
                Err(e) => return Some(json!({"load": [k, ts], "error": e})),
            };
            // want = k*100 + ts'*10 + v of the newest version <= ts, or 0
            let ok = if want == 0 {
                got.0.is_none() && !got.1
            } else if want % 10 == 0 {
                got.0.is_none() && got.1
            } else {
                let wts = (want / 10) % 10;
                got.0.as_deref() == Some(value_bytes(k, wts).as_slice()) && !got.1
            };
            if !ok {
                return Some(json!({"load": [k, ts], "expected_code": want, "observed_value": got.0.map(|v| String::from_utf8_lossy(&v[..v.len().min(12)]).to_string()), "tombstone": got.1}));
            }
        }
        if let Some((fk, lk, mn, mx, setsum)) = meta {
            let mut acc = sst::Setsum::default();
            for (k, ts, v) in &entries {
                if *v == 0 { acc.del(&key_bytes(*k), *ts as u64); } else { acc.put(&key_bytes(*k), *ts as u64, &value_bytes(*k, *ts)); }
            }
            *steps += 1;
            if fk != key_bytes(t["first"].as_i64().unwrap()) || lk != key_bytes(t["last"].as_i64().unwrap())
                || mn != t["mints"].as_u64().unwrap() || mx != t["maxts"].as_u64().unwrap() || setsum != acc.digest() {
                return Some(json!({"metadata": {"first": key_of_bytes(&fk), "last": key_of_bytes(&lk), "mints": mn, "maxts": mx, "setsum_ok": setsum == acc.digest()},
                                   "expected": {"first": t["first"], "last": t["last"], "mints": t["mints"], "maxts": t["maxts"]}}));
            }
        }
        let _ = code_of;
        None
    }));
    match r {
        Ok(v) => v,
        Err(_) => Some(json!({"panic": true})),
    }
}
