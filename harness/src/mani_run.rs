//! C13 (and the manifest part of C02/C04): drive mani::Manifest under the system-call shim.
//!   vh mani-run <doc.json> <root>     execute {"ratio": n, "ops": [...]} ; marks go to the shim log
//!   vh mani-recover <root> [<out.ndjson>]   open the manifest and report the recovered state
//!   vh mani-cuts <root> <scratch> <out.ndjson>  truncate MANIFEST at every length, recover each
use crate::common::*;
use crate::shimmark::mark;
use arrrg::CommandLine;
use mani::{Edit, Manifest, ManifestOptions};
use serde_json::{Value, json};
use std::io::Write;
use std::panic::{AssertUnwindSafe, catch_unwind};
use std::path::{Path, PathBuf};

fn opts(ratio: u64) -> ManifestOptions {
    let r = format!("{ratio}");
    let args = ["--log-rollover-ratio", r.as_str()];
    let (o, _) = ManifestOptions::from_arguments_relaxed("vh", &args);
    o
}

fn edit_of(v: &Value) -> Result<Edit, String> {
    let mut e = Edit::default();
    for s in v["rm"].as_array().map(|a| a.as_slice()).unwrap_or(&[]) {
        e.rm(s.as_str().unwrap()).map_err(|e| format!("{e:?}"))?;
    }
    for s in v["add"].as_array().map(|a| a.as_slice()).unwrap_or(&[]) {
        e.add(s.as_str().unwrap()).map_err(|e| format!("{e:?}"))?;
    }
    if let Some(m) = v["info"].as_object() {
        for (k, val) in m {
            e.info(k.chars().next().unwrap(), val.as_str().unwrap()).map_err(|e| format!("{e:?}"))?;
        }
    }
    Ok(e)
}

fn state_of(m: &Manifest) -> Value {
    let strs: Vec<String> = m.strs().map(|s| s.to_string()).collect();
    let mut info = serde_json::Map::new();
    for c in (b'!'..=b'~').map(|b| b as char) {
        if let Some(v) = m.info(c) {
            info.insert(c.to_string(), json!(v));
        }
    }
    json!({"strs": strs, "info": info})
}

pub fn run(args: &[String]) -> ! {
    let doc: Value = serde_json::from_str(&std::fs::read_to_string(&args[0]).unwrap()).unwrap();
    let root = PathBuf::from(&args[1]);
    let ratio = doc["ratio"].as_u64().unwrap_or(2);
    std::panic::set_hook(Box::new(|_| {}));
    let mut rep = Report::default();
    mark(&json!({"op": "open-begin"}));
    let mut m = match Manifest::open(opts(ratio), &root) {
        Ok(m) => m,
        Err(e) => {
            mark(&json!({"op": "open-err", "err": format!("{e:?}").chars().take(200).collect::<String>()}));
            rep.known("open failed");
            rep.finish();
        }
    };
    mark(&json!({"op": "open-ack", "state": state_of(&m)}));
    for op in doc["ops"].as_array().unwrap() {
        rep.steps += 1;
        match op[0].as_str().unwrap() {
            "apply" => match edit_of(&op[1]) {
                Err(e) => mark(&json!({"op": "edit-refused", "edit": op[1], "err": e})),
                Ok(e) => {
                    mark(&json!({"op": "apply-begin", "edit": op[1]}));
                    match catch_unwind(AssertUnwindSafe(|| m.apply(e))) {
                        Ok(Ok(())) => mark(&json!({"op": "apply-ack", "state": state_of(&m)})),
                        Ok(Err(e)) => mark(&json!({"op": "apply-err", "err": format!("{e:?}").chars().take(200).collect::<String>()})),
                        Err(_) => mark(&json!({"op": "apply-err", "err": "panic"})),
                    }
                }
            },
            "rollover" => {
                mark(&json!({"op": "rollover-begin"}));
                match m.rollover() {
                    Ok(()) => mark(&json!({"op": "rollover-ack"})),
                    Err(e) => mark(&json!({"op": "rollover-err", "err": format!("{e:?}").chars().take(200).collect::<String>()})),
                }
            }
            "reopen" => {
                drop(m);
                mark(&json!({"op": "open-begin"}));
                m = match Manifest::open(opts(ratio), &root) {
                    Ok(m) => m,
                    Err(e) => {
                        mark(&json!({"op": "open-err", "err": format!("{e:?}").chars().take(200).collect::<String>()}));
                        rep.finish();
                    }
                };
                mark(&json!({"op": "open-ack", "state": state_of(&m)}));
            }
            x => tool_error(&format!("mani op {x}")),
        }
    }
    mark(&json!({"op": "close"}));
    rep.evaluations = 1;
    rep.finish()
}

fn recover_value(root: &Path, ratio: u64) -> Value {
    let r = catch_unwind(AssertUnwindSafe(|| match Manifest::open(opts(ratio), root) {
        Ok(m) => json!({"op": "recovered", "state": state_of(&m)}),
        Err(e) => json!({"op": "recover-err", "err": format!("{e:?}").chars().take(200).collect::<String>(),
                         "code": mani::error_code(&e).unwrap_or("?")}),
    }));
    let mut v = r.unwrap_or(json!({"op": "recover-panic"}));
    // the recovered manifest must be usable: one more edit, one more reopen
    if v["op"] == "recovered" {
        let after = catch_unwind(AssertUnwindSafe(|| -> Result<Value, String> {
            let mut m = Manifest::open(opts(ratio), root).map_err(|e| format!("{e:?}"))?;
            let mut e = Edit::default();
            e.add("after-recovery").map_err(|e| format!("{e:?}"))?;
            m.apply(e).map_err(|e| format!("{e:?}"))?;
            drop(m);
            let m = Manifest::open(opts(ratio), root).map_err(|e| format!("{e:?}"))?;
            Ok(state_of(&m))
        }));
        v["after"] = match after {
            Ok(Ok(s)) => s,
            Ok(Err(e)) => json!({"error": e.chars().take(160).collect::<String>()}),
            Err(_) => json!({"error": "panic"}),
        };
    }
    // fragment chaining as the repository's own checker sees it (after the open above rolled over)
    let errs: Vec<String> = Manifest::verify(opts(ratio), root).map(|e| format!("{e:?}").chars().take(160).collect()).collect();
    v["verify_errors"] = json!(errs);
    v
}

pub fn recover(args: &[String]) -> ! {
    std::panic::set_hook(Box::new(|_| {}));
    let root = PathBuf::from(&args[0]);
    let ratio: u64 = args.get(2).and_then(|s| s.parse().ok()).unwrap_or(2);
    let v = recover_value(&root, ratio);
    if let Some(out) = args.get(1) {
        let mut f = std::fs::OpenOptions::new().create(true).append(true).open(out).unwrap();
        writeln!(f, "{}", json!({"call": "mark", "n": 0, "mark": v})).unwrap();
    } else {
        println!("{v}");
    }
    let mut rep = Report::default();
    rep.evaluations = 1;
    rep.finish()
}

fn copy_dir(src: &Path, dst: &Path) {
    let _ = std::fs::remove_dir_all(dst);
    std::fs::create_dir_all(dst).unwrap();
    for e in std::fs::read_dir(src).unwrap().flatten() {
        if e.path().is_file() {
            std::fs::copy(e.path(), dst.join(e.file_name())).unwrap();
        }
    }
}

/// For a manifest directory at rest: the lines of MANIFEST (so the specification can locate edit
/// boundaries) and, for every truncation length, what a reopen yields.
pub fn cuts(args: &[String]) -> ! {
    std::panic::set_hook(Box::new(|_| {}));
    let root = PathBuf::from(&args[0]);
    let scratch = PathBuf::from(&args[1]);
    let ratio: u64 = args.get(3).and_then(|s| s.parse().ok()).unwrap_or(2);
    let mut out = std::fs::OpenOptions::new().create(true).append(true).open(&args[2]).unwrap();
    let bytes = std::fs::read(root.join("MANIFEST")).unwrap_or_default();
    // line lengths including the newline
    let mut lens = vec![];
    let mut cur = 0usize;
    let mut seps = vec![];
    let mut start = 0usize;
    for (i, b) in bytes.iter().enumerate() {
        cur += 1;
        if *b == b'\n' {
            lens.push(cur);
            if &bytes[start..i] == b"--------" {
                // an edit is whole once the separator's dashes are there (the newline may be cut)
                seps.push(i);
            }
            cur = 0;
            start = i + 1;
        }
    }
    writeln!(out, "{}", json!({"call": "mark", "n": 0, "mark": {"op": "cut-begin", "size": bytes.len(), "edit_ends": seps}})).unwrap();
    let mut rep = Report::default();
    for cut in 0..=bytes.len() {
        let d = scratch.join("cut");
        copy_dir(&root, &d);
        let f = std::fs::OpenOptions::new().write(true).open(d.join("MANIFEST")).unwrap();
        f.set_len(cut as u64).unwrap();
        drop(f);
        // alternate between the run's own ratio and one that never rolls over after an edit, so
        // that what follows a torn tail stays in the same file
        let mut v = recover_value(&d, if cut % 2 == 0 { ratio } else { 1000 });
        v["cut"] = json!(cut);
        v["op"] = json!(format!("cut-{}", v["op"].as_str().unwrap()));
        writeln!(out, "{}", json!({"call": "mark", "n": 0, "mark": v})).unwrap();
        rep.steps += 1;
    }
    let _ = std::fs::remove_dir_all(scratch.join("cut"));
    rep.evaluations = 1;
    rep.finish()
}
