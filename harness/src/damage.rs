//! C09: damage campaigns on SSTs, logs and manifests.  For each case the pristine file is copied,
//! damaged, and read back through the public readers; what each reader did is recorded for
//! validation against Damage.tla / Trace_Damage.tla.
use crate::common::*;
use arrrg::CommandLine;
use serde_json::{Value, json};
use sst::log::{LogBuilder, LogIterator, LogOptions};
use sst::{Builder, Cursor as _, Sst, SstBuilder, SstOptions};
use std::io::Cursor;
use std::panic::{AssertUnwindSafe, catch_unwind};
use std::path::{Path, PathBuf};

#[derive(Clone, Debug)]
struct Region {
    kind: String,
    start: u64,
    limit: u64,
    // sst data block: entries in it; log: batch number (1-based, 0 for padding); mani: edit number (1-based)
    aux: u64,
    // log: whole/first/second ; otherwise ""
    frame: String,
}

type Entry = (Vec<u8>, u64, Option<Vec<u8>>);

fn dkey(k: i64) -> Vec<u8> {
    // keys of varying length with shared prefixes
    let mut v = format!("key{:04}", k).into_bytes();
    if k % 3 == 0 { v.extend_from_slice(b"/sub"); }
    v
}

fn xorshift(x: &mut u64) -> u64 {
    *x ^= *x << 13;
    *x ^= *x >> 7;
    *x ^= *x << 17;
    *x
}

/////////////////////////////////////////////// builds //////////////////////////////////////////////

fn sst_opts(b: &Value) -> SstOptions {
    let mut o = SstOptions::default().target_block_size(b["block"].as_u64().unwrap_or(256) as u32);
    if let Some(r) = b["restart"].as_u64() {
        o = o.block(sst::block::BlockBuilderOptions::default().bytes_restart_interval(r as u32).key_value_pairs_restart_interval((r as u32).max(1)));
    }
    o
}

fn build_sst(b: &Value, path: &Path) -> (Vec<u8>, Vec<Entry>) {
    let nkeys = b["nkeys"].as_i64().unwrap_or(12);
    let versions = b["versions"].as_i64().unwrap_or(2);
    let vlen = b["vlen"].as_u64().unwrap_or(20) as usize;
    let mut rng = b["seed"].as_u64().unwrap_or(1) | 1;
    let _ = std::fs::remove_file(path);
    let mut sb = SstBuilder::new(sst_opts(b), path).unwrap();
    let mut entries = vec![];
    for k in 1..=nkeys {
        for v in (1..=versions).rev() {
            let key = dkey(k);
            let ts = (v * 3 + k % 3) as u64;
            if xorshift(&mut rng) % 5 == 0 {
                sb.del(&key, ts).unwrap();
                entries.push((key, ts, None));
            } else {
                let mut val = value_bytes(k, v);
                while val.len() < vlen {
                    val.push(b'a' + (xorshift(&mut rng) % 26) as u8);
                }
                sb.put(&key, ts, &val).unwrap();
                entries.push((key, ts, Some(val)));
            }
        }
    }
    drop(sb.seal().unwrap());
    (std::fs::read(path).unwrap(), entries)
}

fn build_log(b: &Value, path: &Path) -> (Vec<u8>, Vec<Entry>, Vec<u64>) {
    // sizes: batch sizes as in C12; small batches are made of small entries
    let _ = std::fs::remove_file(path);
    let mut lb = LogBuilder::new(LogOptions::default(), path).unwrap();
    let mut entries = vec![];
    let mut per_batch = vec![];
    let pad_before = b["pad_before_boundary"].as_u64();
    for (i, s) in b["sizes"].as_array().unwrap().iter().enumerate() {
        let mut size = s.as_u64().unwrap() as usize;
        if i == 1 && pad_before.is_some() {
            // the second batch is sized so that exactly `pad_before_boundary` bytes remain before the 1 MiB boundary
            let left = (1usize << 20) - lb.approximate_size() - pad_before.unwrap() as usize;
            size = left - 13; // header: length byte + <= 12 bytes
        }
        let mut wb = sst::log::WriteBatch::default();
        let mut n = 0u64;
        let mut j = 0i64;
        // entries of at most 20000 value bytes until the batch has roughly the requested size
        while wb.approximate_size() + 40 < size || n == 0 {
            let room = size.saturating_sub(wb.approximate_size() + 40);
            let vl = room.min(20000);
            let key = dkey(1 + (i as i64 * 7 + j) % 50);
            let ts = (i * 1000) as u64 + j as u64 + 1;
            if vl == 0 || (i + j as usize) % 7 == 3 {
                wb.del(&key, ts).unwrap();
                entries.push((key, ts, None));
            } else {
                let val = vec![b'a' + ((i + j as usize) % 26) as u8; vl];
                wb.put(&key, ts, &val).unwrap();
                entries.push((key, ts, Some(val)));
            }
            n += 1;
            j += 1;
        }
        if i == 1 && pad_before.is_some() {
            // trim / grow the last value until the frame ends exactly where wanted
            let want_end = (1usize << 20) - pad_before.unwrap() as usize;
            for _ in 0..64 {
                let sz = wb.approximate_size();
                let vl = if sz < 128 { 1 } else if sz < 16384 { 2 } else if sz < 2097152 { 3 } else { 4 };
                let end = lb.approximate_size() + 9 + vl + sz;
                if end == want_end { break; }
                // rebuild the batch with the last value adjusted
                let (k, t, v) = entries.pop().unwrap();
                let mut v = v.unwrap_or_default();
                if end > want_end { let cut = (end - want_end).min(v.len().saturating_sub(1)); v.truncate(v.len() - cut); } else { v.extend(std::iter::repeat(b'q').take(want_end - end)); }
                let mut wb2 = sst::log::WriteBatch::default();
                let start = entries.len() + 1 - n as usize;
                for e in &entries[start..] { match &e.2 { Some(val) => wb2.put(&e.0, e.1, val).unwrap(), None => wb2.del(&e.0, e.1).unwrap() } }
                wb2.put(&k, t, &v).unwrap();
                entries.push((k, t, Some(v)));
                wb = wb2;
            }
        }
        lb.append(&wb).unwrap();
        per_batch.push(n);
    }
    lb.fsync().unwrap();
    drop(lb);
    (std::fs::read(path).unwrap(), entries, per_batch)
}

fn mani_opts() -> mani::ManifestOptions {
    let args = ["--log-rollover-ratio", "1000000"];
    mani::ManifestOptions::from_arguments_relaxed("vh", &args).0
}

fn build_mani(b: &Value, root: &Path) -> (Vec<u8>, Vec<Value>) {
    let _ = std::fs::remove_dir_all(root);
    let mut m = mani::Manifest::open(mani_opts(), root).unwrap();
    let nedits = b["edits"].as_u64().unwrap_or(5);
    let mut rng = b["seed"].as_u64().unwrap_or(1) | 1;
    let mut live: Vec<String> = vec![];
    let mut edits = vec![];
    for i in 0..nedits {
        let mut e = mani::Edit::default();
        let mut rec = json!({"add": [], "rm": [], "info": {}});
        if !live.is_empty() && xorshift(&mut rng) % 3 == 0 {
            let s = live.remove((xorshift(&mut rng) % live.len() as u64) as usize);
            e.rm(&s).unwrap();
            rec["rm"].as_array_mut().unwrap().push(json!(s));
        }
        for j in 0..1 + xorshift(&mut rng) % 2 {
            let s = format!("file{i:02}x{j}{}", if xorshift(&mut rng) % 2 == 0 { "abcdef" } else { "0A" });
            e.add(&s).unwrap();
            live.push(s.clone());
            rec["add"].as_array_mut().unwrap().push(json!(s));
        }
        if i % 2 == 0 {
            let v = format!("v{i}");
            e.info('I', &v).unwrap();
            rec["info"]["I"] = json!(v);
        }
        m.apply(e).unwrap();
        edits.push(rec);
    }
    drop(m);
    (std::fs::read(mani::MANIFEST(root)).unwrap(), edits)
}

/////////////////////////////////////////////// regions /////////////////////////////////////////////

fn sst_regions(path: &Path) -> Vec<Region> {
    let sst = Sst::<sst::file_manager::FileHandle>::new(SstOptions::default(), path).unwrap();
    sst.verif_regions().unwrap().into_iter()
        .map(|(k, s, l, n)| Region { kind: k.to_string(), start: s, limit: l, aux: n, frame: String::new() }).collect()
}

fn varint(buf: &[u8]) -> Option<(u64, usize)> {
    let mut v = 0u64;
    for (i, b) in buf.iter().enumerate().take(10) {
        v |= ((b & 0x7f) as u64) << (7 * i);
        if b & 0x80 == 0 {
            return Some((v, i + 1));
        }
    }
    None
}

/// Walk a pristine log: length byte, header, body, padding.
fn log_regions(bytes: &[u8]) -> Vec<Region> {
    const BLOCK: u64 = 1 << 20;
    let mut out = vec![];
    let mut off = 0usize;
    let mut batch = 0u64;
    while off < bytes.len() {
        let l = bytes[off] as usize;
        if l == 0 {
            let nb = ((off as u64 / BLOCK) + 1) * BLOCK;
            let nb = (nb as usize).min(bytes.len());
            out.push(Region { kind: "pad".into(), start: off as u64, limit: nb as u64, aux: 0, frame: String::new() });
            off = nb;
            continue;
        }
        let hdr = &bytes[off + 1..off + 1 + l];
        // fields: 10 size varint (tag 0x50), 11 discriminant varint (0x58), 12 crc fixed32 (0x65)
        let (mut size, mut disc, mut i) = (0u64, 0u64, 0usize);
        while i < hdr.len() {
            match hdr[i] {
                0x50 => { let (v, n) = varint(&hdr[i + 1..]).unwrap(); size = v; i += 1 + n; }
                0x58 => { let (v, n) = varint(&hdr[i + 1..]).unwrap(); disc = v; i += 1 + n; }
                0x65 => { i += 5; }
                t => tool_error(&format!("unexpected tag {t:#x} in a pristine log header")),
            }
        }
        let frame = match disc { 1 => "whole", 2 => "first", 3 => "second", d => tool_error(&format!("unexpected discriminant {d}")) };
        if frame != "second" {
            batch += 1;
        }
        let (h0, b0, b1) = (off as u64, (off + 1 + l) as u64, (off + 1 + l) as u64 + size);
        out.push(Region { kind: "hlen".into(), start: h0, limit: h0 + 1, aux: batch, frame: frame.into() });
        out.push(Region { kind: "header".into(), start: h0 + 1, limit: b0, aux: batch, frame: frame.into() });
        out.push(Region { kind: "body".into(), start: b0, limit: b1, aux: batch, frame: frame.into() });
        off = b1 as usize;
    }
    out
}

fn mani_regions(bytes: &[u8]) -> Vec<Region> {
    let mut out = vec![];
    let mut off = 0u64;
    let mut edit = 1u64;
    for line in bytes.split_inclusive(|b| *b == b'\n') {
        let n = line.len() as u64;
        if line.starts_with(b"--------") && n == 9 {
            out.push(Region { kind: "sep".into(), start: off, limit: off + 8, aux: edit, frame: String::new() });
            out.push(Region { kind: "sepnl".into(), start: off + 8, limit: off + 9, aux: edit, frame: String::new() });
            edit += 1;
        } else {
            out.push(Region { kind: "crc".into(), start: off, limit: off + 8, aux: edit, frame: String::new() });
            out.push(Region { kind: "payload".into(), start: off + 8, limit: off + n - 1, aux: edit, frame: String::new() });
            out.push(Region { kind: "nl".into(), start: off + n - 1, limit: off + n, aux: edit, frame: String::new() });
        }
        off += n;
    }
    out
}

/////////////////////////////////////////////// readers /////////////////////////////////////////////

fn status_of<T>(r: std::thread::Result<Result<T, String>>) -> (&'static str, Option<T>) {
    match r {
        Ok(Ok(v)) => ("ok", Some(v)),
        Ok(Err(_)) => ("error", None),
        Err(_) => ("panic", None),
    }
}

fn walk_sst(sst: &Sst, forward: bool, pristine: &[Entry]) -> Value {
    let want: Vec<&Entry> = if forward { pristine.iter().collect() } else { pristine.iter().rev().collect() };
    let mut delivered = 0usize;
    let mut exact = true;
    let r = catch_unwind(AssertUnwindSafe(|| -> Result<(), String> {
        let mut c = sst.cursor();
        if forward { c.seek_to_first().map_err(|e| format!("{e:?}"))?; c.next().map_err(|e| format!("{e:?}"))?; }
        else { c.seek_to_last().map_err(|e| format!("{e:?}"))?; c.prev().map_err(|e| format!("{e:?}"))?; }
        while let Some(kvr) = c.key_value() {
            let got: Entry = (kvr.key.to_vec(), kvr.timestamp, kvr.value.map(|v| v.to_vec()));
            if delivered >= want.len() || *want[delivered] != got { exact = false; }
            delivered += 1;
            if delivered > want.len() + 4 { break; }
            if forward { c.next().map_err(|e| format!("{e:?}"))?; } else { c.prev().map_err(|e| format!("{e:?}"))?; }
        }
        Ok(())
    }));
    let (st, _) = status_of(r);
    json!({"op": if forward { "fwd" } else { "bwd" }, "status": st, "delivered": delivered, "exact": exact,
           "same": st == "ok" && exact && delivered == want.len()})
}

fn read_sst(path: &Path, pristine: &[Entry], blocks: &[(usize, usize)], setsum: &[u8; 32]) -> Vec<Value> {
    let mut ops = vec![];
    let r = catch_unwind(AssertUnwindSafe(|| Sst::<sst::file_manager::FileHandle>::new(SstOptions::default(), path).map_err(|e| format!("{e:?}"))));
    let (st, sst) = status_of(r);
    ops.push(json!({"op": "open", "status": st}));
    let Some(sst) = sst else { return ops; };
    ops.push(walk_sst(&sst, true, pristine));
    ops.push(walk_sst(&sst, false, pristine));
    // one point read and one seek per data block (the first entry of the block)
    for (b, (lo, _hi)) in blocks.iter().enumerate() {
        let e = &pristine[*lo];
        let r = catch_unwind(AssertUnwindSafe(|| {
            let mut tomb = false;
            sst.load(&e.0, e.1, &mut tomb).map(|v| (v, tomb)).map_err(|e| format!("{e:?}"))
        }));
        let (st, got) = status_of(r);
        let same = got.map(|(v, t)| v == e.2 && t == e.2.is_none()).unwrap_or(false);
        ops.push(json!({"op": "load", "block": b + 1, "status": st, "same": same}));
        let r = catch_unwind(AssertUnwindSafe(|| -> Result<Option<Entry>, String> {
            let mut c = sst.cursor();
            c.seek(&e.0).map_err(|e| format!("{e:?}"))?;
            Ok(c.key_value().map(|kvr| (kvr.key.to_vec(), kvr.timestamp, kvr.value.map(|v| v.to_vec()))))
        }));
        let (st, got) = status_of(r);
        // seek(key) lands on the newest version of the key: the first pristine entry with that key
        let first = pristine.iter().find(|x| x.0 == e.0).unwrap();
        let same = got.map(|g| g.as_ref() == Some(first)).unwrap_or(false);
        ops.push(json!({"op": "seek", "block": b + 1, "status": st, "same": same}));
    }
    // verification as lsmtk's verifier does it: the contents must add up to the stored setsum
    let r = catch_unwind(AssertUnwindSafe(|| -> Result<bool, String> {
        let mut acc = sst::Setsum::default();
        let mut c = sst.cursor();
        c.seek_to_first().map_err(|e| format!("{e:?}"))?;
        c.next().map_err(|e| format!("{e:?}"))?;
        let mut n = 0;
        while let Some(kvr) = c.key_value() {
            match kvr.value { Some(v) => acc.put(kvr.key, kvr.timestamp, v), None => acc.del(kvr.key, kvr.timestamp) }
            n += 1;
            if n > pristine.len() + 4 { break; }
            c.next().map_err(|e| format!("{e:?}"))?;
        }
        if acc.digest() != sst.fast_setsum().digest() { return Err("setsum mismatch".into()); }
        Ok(acc.digest() == *setsum)
    }));
    let (st, same) = status_of(r);
    ops.push(json!({"op": "verify", "status": st, "same": same.unwrap_or(false)}));
    let r = catch_unwind(AssertUnwindSafe(|| sst.metadata().map_err(|e| format!("{e:?}"))));
    let (st, md) = status_of(r);
    let same = md.map(|m| m.setsum == *setsum && m.first_key == pristine[0].0 && m.last_key == pristine[pristine.len() - 1].0).unwrap_or(false);
    ops.push(json!({"op": "meta", "status": st, "same": same}));
    ops
}

fn read_log(bytes: &[u8], pristine: &[Entry]) -> Vec<Value> {
    let mut delivered = 0usize;
    let mut exact = true;
    let mut after_error_bad = false;
    let r = catch_unwind(AssertUnwindSafe(|| -> Result<(), String> {
        let mut it = LogIterator::from_reader(LogOptions::default(), Cursor::new(bytes)).map_err(|e| format!("{e:?}"))?;
        loop {
            match it.next() {
                Ok(Some(kvr)) => {
                    let ok = delivered < pristine.len() && {
                        let p = &pristine[delivered];
                        p.0 == kvr.key && p.1 == kvr.timestamp && p.2.as_deref() == kvr.value
                    };
                    if !ok { exact = false; }
                    delivered += 1;
                    if delivered > pristine.len() + 4 { return Ok(()); }
                }
                Ok(None) => return Ok(()),
                Err(e) => {
                    // a caller that goes on after an error must not be handed anything that is not genuine either:
                    // a few more calls, judged like the ones before
                    for _ in 0..3 {
                        match it.next() {
                            Ok(Some(kvr)) => {
                                // skipping the failed batch is fine; what comes must be a genuine later entry
                                match (delivered..pristine.len()).find(|j| { let p = &pristine[*j]; p.0 == kvr.key && p.1 == kvr.timestamp && p.2.as_deref() == kvr.value }) {
                                    Some(j) => delivered = j + 1,
                                    None => { exact = false; after_error_bad = true; delivered += 1; }
                                }
                            }
                            _ => break,
                        }
                    }
                    return Err(format!("{e:?}"));
                }
            }
        }
    }));
    let (st, _) = status_of(r);
    vec![json!({"op": "drain", "status": st, "delivered": delivered, "exact": exact, "after_error_bad": after_error_bad, "same": st == "ok" && exact && delivered == pristine.len()})]
}

fn edit_json(e: &mani::Edit) -> Value {
    // Edit exposes no accessors; its Debug rendering is stable within one build and is compared only
    // with the rendering of the pristine edits
    json!(format!("{e:?}"))
}

fn mani_state(m: &mani::Manifest) -> Value {
    let strs: Vec<String> = m.strs().map(|s| s.to_string()).collect();
    json!({"strs": strs, "I": m.info('I')})
}

fn read_mani(root: &Path, bytes: &[u8], pristine_edits: &[Value], pristine_state: &Value, prefix_states: &[Value]) -> Vec<Value> {
    let _ = std::fs::remove_dir_all(root);
    std::fs::create_dir_all(root).unwrap();
    std::fs::write(mani::MANIFEST(root), bytes).unwrap();
    let mut ops = vec![];
    let mut delivered = 0usize;
    let mut exact = true;
    let r = catch_unwind(AssertUnwindSafe(|| -> Result<(), String> {
        let it = mani::ManifestIterator::open(mani::MANIFEST(root)).map_err(|e| format!("{e:?}"))?;
        for e in it {
            let e = e.map_err(|e| format!("{e:?}"))?;
            if delivered >= pristine_edits.len() || pristine_edits[delivered] != edit_json(&e) { exact = false; }
            delivered += 1;
            if delivered > pristine_edits.len() + 4 { break; }
        }
        Ok(())
    }));
    let (st, _) = status_of(r);
    ops.push(json!({"op": "iter", "status": st, "delivered": delivered, "exact": exact, "same": st == "ok" && exact && delivered == pristine_edits.len()}));
    let r = catch_unwind(AssertUnwindSafe(|| mani::Manifest::open(mani_opts(), root).map(|m| mani_state(&m)).map_err(|e| format!("{e:?}"))));
    let (st, state) = status_of(r);
    let same = state.as_ref().map(|s| s == pristine_state).unwrap_or(false);
    // which prefix of the edits the recovered state corresponds to (0-based count), or -1
    let prefix = state.as_ref().and_then(|s| prefix_states.iter().position(|p| p == s)).map(|p| p as i64).unwrap_or(-1);
    ops.push(json!({"op": "open", "status": st, "same": same, "prefix": prefix}));
    ops
}


//////////////////////////////////////////////// store //////////////////////////////////////////////

fn store_opts(root: &Path, b: &Value) -> lsmtk::LsmtkOptions {
    let mut args: Vec<String> = vec!["--path".into(), root.to_string_lossy().to_string()];
    if let Some(m) = b["opts"].as_object() {
        for (k, v) in m {
            args.push(format!("--{k}"));
            args.push(match v { Value::String(s) => s.clone(), x => x.to_string() });
        }
    }
    let refs: Vec<&str> = args.iter().map(|s| s.as_str()).collect();
    lsmtk::LsmtkOptions::from_arguments_relaxed("vh", &refs).0
}

fn sval(k: i64, round: i64, vlen: usize) -> Vec<u8> {
    let mut v = format!("val{k}.{round}.").into_bytes();
    while v.len() < vlen { v.push(b'a' + ((k + round) % 26) as u8); }
    v
}

/// A store with several levels: rounds of writes, each flushed and followed by some compaction steps; optionally
/// a last round left in the write-ahead log.
fn build_store(b: &Value, root: &Path) {
    let _ = std::fs::remove_dir_all(root);
    lsmtk::verif::set_single_step(true);
    let nkeys = b["nkeys"].as_i64().unwrap_or(8);
    let rounds = b["rounds"].as_i64().unwrap_or(3);
    let vlen = b["vlen"].as_u64().unwrap_or(40) as usize;
    let mut rng = b["seed"].as_u64().unwrap_or(1) | 1;
    let kvs = lsmtk::KeyValueStore::open(store_opts(root, b)).unwrap();
    for r in 1..=rounds {
        for k in 1..=nkeys {
            match xorshift(&mut rng) % 4 {
                0 => {}
                1 => kvs.del(&dkey(k)).unwrap(),
                _ => kvs.put(&dkey(k), &sval(k, r, vlen)).unwrap(),
            }
        }
        if r < rounds || !b["unflushed"].as_bool().unwrap_or(false) {
            kvs.verif_flush_once().unwrap();
            for _ in 0..(xorshift(&mut rng) % 4) { if !kvs.verif_tree().verif_compact_once().unwrap() { break; } }
        }
    }
    drop(kvs);
}

fn copy_dir(from: &Path, to: &Path) {
    let _ = std::fs::remove_dir_all(to);
    std::fs::create_dir_all(to).unwrap();
    for e in std::fs::read_dir(from).unwrap().flatten() {
        let p = e.path();
        let t = to.join(e.file_name());
        if p.is_dir() { copy_dir(&p, &t); } else { std::fs::copy(&p, &t).unwrap(); }
    }
}

/// Files of a store by kind: (kind, relative path), sorted.
fn store_files(root: &Path) -> Vec<(String, PathBuf)> {
    let mut out = vec![];
    for (kind, sub) in [("sst", "sst"), ("mani", "mani"), ("log", "")] {
        let mut names: Vec<PathBuf> = std::fs::read_dir(root.join(sub)).map(|d| d.flatten().map(|e| e.path()).collect()).unwrap_or_default();
        names.sort();
        for p in names {
            let name = p.file_name().unwrap().to_string_lossy().to_string();
            if kind == "log" && !name.starts_with("log.") { continue; }
            if p.is_file() && name != "LOCKFILE" && std::fs::metadata(&p).map(|m| m.len() > 0).unwrap_or(false) {
                out.push((kind.to_string(), PathBuf::from(sub).join(name)));
            }
        }
    }
    out
}

type Truth = (Vec<Option<Vec<u8>>>, Vec<Entry>);

fn read_store(root: &Path, b: &Value, truth: Option<&Truth>) -> (Vec<Value>, Option<Truth>) {
    let nkeys = b["nkeys"].as_i64().unwrap_or(8);
    let mut ops = vec![];
    let r = catch_unwind(AssertUnwindSafe(|| lsmtk::KeyValueStore::open(store_opts(root, b)).map_err(|e| format!("{e:?}"))));
    let (st, kvs) = status_of(r);
    ops.push(json!({"op": "open", "status": st}));
    let Some(kvs) = kvs else { return (ops, None); };
    let mut gets = vec![];
    for k in 1..=nkeys + 1 {
        let r = catch_unwind(AssertUnwindSafe(|| { let mut t = false; kvs.load(&dkey(k), &mut t).map_err(|e| format!("{e:?}")) }));
        let (st, got) = status_of(r);
        let same = match (truth, &got) { (Some(t), Some(g)) => t.0[k as usize - 1] == *g, _ => true };
        ops.push(json!({"op": "get", "k": k, "status": st, "same": st == "ok" && same}));
        gets.push(got.unwrap_or(None));
    }
    let mut scanned: Vec<Entry> = vec![];
    let mut exact = true;
    let r = catch_unwind(AssertUnwindSafe(|| -> Result<(), String> {
        let u: std::ops::Bound<Vec<u8>> = std::ops::Bound::Unbounded;
        let mut c = kvs.range_scan(&u, &u).map_err(|e| format!("{e:?}"))?;
        c.seek_to_first().map_err(|e| format!("{e:?}"))?;
        c.next().map_err(|e| format!("{e:?}"))?;
        while let Some(kvr) = c.key_value() {
            let got: Entry = (kvr.key.to_vec(), kvr.timestamp, kvr.value.map(|v| v.to_vec()));
            if let Some(t) = truth { if scanned.len() >= t.1.len() || t.1[scanned.len()] != got { exact = false; } }
            scanned.push(got);
            if scanned.len() > 10000 { break; }
            c.next().map_err(|e| format!("{e:?}"))?;
        }
        Ok(())
    }));
    let (st, _) = status_of(r);
    let full = truth.map(|t| t.1.len() == scanned.len()).unwrap_or(true);
    ops.push(json!({"op": "scan", "status": st, "delivered": scanned.len(), "exact": exact, "same": st == "ok" && exact && full}));
    drop(kvs);
    let r = catch_unwind(AssertUnwindSafe(|| -> Result<(), String> {
        let mut v = lsmtk::LsmVerifier::open(store_opts(root, b)).map_err(|e| format!("{e:?}"))?;
        match v.verify() { Ok(()) => Ok(()), Err(e) if lsmtk::error_code(&e) == Some(lsmtk::CODE_BACKOFF) => Ok(()), Err(e) => Err(format!("{e:?}")) }
    }));
    let (st, _) = status_of(r);
    ops.push(json!({"op": "sverify", "status": st}));
    (ops, Some((gets, scanned)))
}

/////////////////////////////////////////////// damage //////////////////////////////////////////////

fn region_of(regions: &[Region], off: u64) -> (usize, String, String, u64, String) {
    for (i, r) in regions.iter().enumerate() {
        if off >= r.start && off < r.limit {
            let pos = if off == r.start { "first" } else if off + 1 == r.limit { "last" } else { "mid" };
            return (i + 1, r.kind.clone(), pos.to_string(), r.aux, r.frame.clone());
        }
    }
    (0, "none".into(), "none".into(), 0, String::new())
}

/// Resolve a class-based position {rkind, which, pos} to an absolute offset.
fn resolve(regions: &[Region], d: &Value) -> Option<u64> {
    if let Some(off) = d["off"].as_u64() {
        return Some(off);
    }
    let rk = d["rkind"].as_str()?;
    let frame = d["frame"].as_str().unwrap_or("");
    let idxs: Vec<usize> = regions.iter().enumerate().filter(|(_, r)| r.kind == rk && (frame.is_empty() || r.frame == frame) && r.limit > r.start).map(|(i, _)| i).collect();
    if idxs.is_empty() {
        return None;
    }
    let i = match d["which"].as_str().unwrap_or("first") { "first" => idxs[0], "last" => idxs[idxs.len() - 1], _ => idxs[idxs.len() / 2] };
    let r = &regions[i];
    let len = r.limit - r.start;
    if let Some(k) = d["pos_index"].as_u64() {
        // the k-th byte of the region, if it has one
        return if k < len { Some(r.start + k) } else { None };
    }
    Some(match d["pos"].as_str().unwrap_or("first") {
        "first" => r.start,
        "second" => r.start + 1.min(len - 1),
        "last" => r.limit - 1,
        "penult" => r.limit - 1 - 1.min(len - 1),
        _ => r.start + len / 2,
    })
}

fn apply(bytes: &mut Vec<u8>, regions: &[Region], d: &Value, rng: &mut u64) -> Option<Value> {
    let kind = d["kind"].as_str().unwrap();
    match kind {
        "flip" | "over" => {
            let off = resolve(regions, d)?;
            if off as usize >= bytes.len() { return None; }
            let old = bytes[off as usize];
            let new = if kind == "flip" { old ^ (1u8 << d["bit"].as_u64().unwrap_or(0)) } else {
                match d["byte"].as_i64() { Some(b) if (0..=255).contains(&b) => b as u8, _ => (xorshift(rng) % 256) as u8 }
            };
            bytes[off as usize] = new;
            // a patch: the given bytes from this offset on
            let mut changed = old != new;
            if let Some(patch) = d["bytes"].as_array() {
                bytes[off as usize] = old;
                changed = false;
                for (j, v) in patch.iter().enumerate() {
                    if let Some(b) = bytes.get_mut(off as usize + j) { let nb = v.as_u64().unwrap() as u8; changed |= *b != nb; *b = nb; }
                }
            }
            let new = if d["bytes"].is_array() { bytes[off as usize] } else { new };
            // a run: the same byte over the following run-1 positions as well
            for j in 1..d["run"].as_u64().unwrap_or(1) {
                if let Some(b) = bytes.get_mut((off + j) as usize) { changed |= *b != new; *b = new; }
            }
            let old = if changed && old == new { !new } else { old };
            let (ridx, rkind, rpos, aux, frame) = region_of(regions, off);
            Some(json!({"kind": kind, "off": off, "old": old, "new": new, "noop": old == new, "ridx": ridx, "rkind": rkind, "rpos": rpos, "aux": aux, "frame": frame}))
        }
        "trunc" => {
            let len = match d["len"].as_u64() { Some(l) => l, None => resolve(regions, d)? };
            if len as usize >= bytes.len() { return None; }
            bytes.truncate(len as usize);
            let (ridx, rkind, rpos, aux, frame) = region_of(regions, len);
            Some(json!({"kind": "trunc", "off": len, "noop": false, "ridx": ridx, "rkind": rkind, "rpos": rpos, "aux": aux, "frame": frame}))
        }
        "extend" => {
            let n = d["n"].as_u64().unwrap_or(1) as usize;
            let fill = d["fill"].as_str().unwrap_or("random");
            let at = bytes.len();
            for i in 0..n {
                let b = match fill { "zero" => 0u8, "ff" => 0xff, "copy" => bytes[at - n.min(at) + i % n.min(at).max(1)], "nl" => b'\n', _ => (xorshift(rng) % 256) as u8 };
                bytes.push(b);
            }
            Some(json!({"kind": "extend", "off": at, "n": n, "fill": fill, "noop": n == 0, "ridx": 0, "rkind": "end", "rpos": "none", "aux": 0, "frame": ""}))
        }
        "craft" => {
            // a short sequence of byte overwrites that puts the largest value into a length field no checksum covers
            match d["what"].as_str().unwrap() {
                "log-size-max" => {
                    // the header of a frame becomes [size = the largest varint that fits, crc], same length
                    let mut dd = d.clone();
                    dd["rkind"] = json!("header");
                    dd["pos"] = json!("first");
                    let off = resolve(regions, &dd)? as usize;
                    let r = regions.iter().find(|r| r.start == off as u64)?;
                    let len = (r.limit - r.start) as usize;
                    if len < 8 { return None; }
                    let vlen = len - 6;
                    let mut h = vec![0x50u8];
                    for j in 0..vlen { h.push(if j + 1 == vlen { 0x7f } else { 0xff }); }
                    h.push(0x65);
                    h.extend_from_slice(&[1, 2, 3, 4]);
                    bytes[off..off + len].copy_from_slice(&h);
                    let (ridx, rkind, rpos, aux, frame) = region_of(regions, off as u64);
                    Some(json!({"kind": "over", "craft": "log-size-max", "off": off, "run": len, "noop": false, "ridx": ridx, "rkind": rkind, "rpos": rpos, "aux": aux, "frame": frame}))
                }
                "sst-trailer" => {
                    let n = bytes.len();
                    let v: u64 = match d["value"].as_str().unwrap_or("max") { "max" => u64::MAX, "size" => n as u64, "size+1" => n as u64 + 1, "zero" => 0, "one" => 1, _ => (n / 2) as u64 };
                    let old = bytes[n - 8..].to_vec();
                    bytes[n - 8..].copy_from_slice(&v.to_le_bytes());
                    let (ridx, rkind, rpos, aux, frame) = region_of(regions, n as u64 - 8);
                    Some(json!({"kind": "over", "craft": "sst-trailer", "off": n - 8, "run": 8, "noop": old == v.to_le_bytes(), "ridx": ridx, "rkind": rkind, "rpos": rpos, "aux": aux, "frame": frame}))
                }
                w => tool_error(&format!("unknown craft {w}")),
            }
        }
        k => tool_error(&format!("unknown damage kind {k}")),
    }
}

/// Store level: one file of a closed store is damaged; the store is opened, every key read, everything scanned, and
/// the verifier run; the truth is what the same readers return on an undamaged copy.
fn store_main(doc: &Value, out: &mut std::io::BufWriter<std::fs::File>, scratch: &Path) -> ! {
    use std::io::Write;
    let build = &doc["build"];
    let pristine = scratch.join("pristine");
    let work = scratch.join("work");
    build_store(build, &pristine);
    let files = store_files(&pristine);
    let mut fregions: Vec<Vec<Region>> = vec![];
    let mut layout = vec![];
    for (kind, rel) in &files {
        let bytes = std::fs::read(pristine.join(rel)).unwrap();
        let regions = match kind.as_str() { "sst" => sst_regions(&pristine.join(rel)), "log" => log_regions(&bytes), _ => mani_regions(&bytes) };
        layout.push(json!({"kind": kind, "name": rel.to_string_lossy(), "size": bytes.len(), "regions": regions.len()}));
        fregions.push(regions);
    }
    copy_dir(&pristine, &work);
    let (ops0, truth) = read_store(&work, build, None);
    let Some(truth) = truth else { tool_error(&format!("the pristine store does not open: {ops0:?}")) };
    if ops0.iter().any(|o| o["status"] != "ok") { tool_error(&format!("the pristine store does not read back: {ops0:?}")); }
    writeln!(out, "{}", json!({"ev": "layout", "file": "store", "files": layout, "size": 0, "regions": [], "keys": truth.0.len(), "entries": truth.1.len()})).unwrap();
    let mut rng = doc["seed"].as_u64().unwrap_or(1) | 1;
    let mut n = 0u64;
    for case in doc["cases"].as_array().cloned().unwrap_or_default() {
        let target = case["target"].as_str().unwrap_or("sst");
        let idxs: Vec<usize> = files.iter().enumerate().filter(|(_, f)| f.0 == target).map(|(i, _)| i).collect();
        if idxs.is_empty() { continue; }
        let fi = idxs[case["file_index"].as_u64().unwrap_or(0) as usize % idxs.len()];
        copy_dir(&pristine, &work);
        let path = work.join(&files[fi].1);
        let mut b = std::fs::read(&path).unwrap();
        let mut applied: Vec<Value> = vec![];
        for d in case["dmgs"].as_array().unwrap() {
            if let Some(a) = apply(&mut b, &fregions[fi], d, &mut rng) { applied.push(a); }
        }
        if applied.is_empty() { continue; }
        let final_len = b.len() as u64;
        for a in applied.iter_mut() {
            let cut = a["kind"] != "trunc" && a["kind"] != "extend" && a["off"].as_u64().unwrap() >= final_len;
            a["cut"] = json!(cut);
            a["target"] = json!(target);
        }
        std::fs::write(&path, &b).unwrap();
        inflight(&json!({"doc": {"file": "store", "build": build, "seed": doc["seed"], "cases": [case]}}));
        let (ops, _) = read_store(&work, build, Some(&truth));
        n += 1;
        writeln!(out, "{}", json!({"ev": "case", "file": "store", "target": target, "name": files[fi].1.to_string_lossy(), "dmgs": applied, "ops": ops, "spec": case})).unwrap();
    }
    writeln!(out, "{}", json!({"ev": "end"})).unwrap();
    out.flush().unwrap();
    let _ = std::fs::remove_dir_all(scratch);
    println!("RESULT {}", json!({"evaluations": n, "steps": n, "distinct": n, "known": {}, "violations": [], "samples": [], "extra": {}}));
    std::process::exit(0);
}

pub fn main(args: &[String]) -> ! {
    // vh damage-run <doc.json> <out.ndjson> <scratch dir>
    let doc: Value = serde_json::from_str(&std::fs::read_to_string(&args[0]).unwrap()).unwrap();
    let scratch = PathBuf::from(&args[2]);
    std::fs::create_dir_all(&scratch).unwrap();
    if std::env::var("VH_PANICS").is_err() {
        std::panic::set_hook(Box::new(|_| {}));
    }
    inflight(&doc);
    let file = doc["file"].as_str().unwrap().to_string();
    let build = &doc["build"];
    let mut out = std::io::BufWriter::new(std::fs::File::create(&args[1]).unwrap());
    use std::io::Write;
    if file == "store" {
        store_main(&doc, &mut out, &scratch);
    }
    let pristine_path = scratch.join("pristine");
    let damaged_path = scratch.join("damaged");
    let (bytes, regions): (Vec<u8>, Vec<Region>);
    let mut entries: Vec<Entry> = vec![];
    let mut blocks: Vec<(usize, usize)> = vec![];
    let mut setsum = [0u8; 32];
    let mut per_batch: Vec<u64> = vec![];
    let mut edits: Vec<Value> = vec![];
    let mut prefix_states: Vec<Value> = vec![];
    let mut pristine_state = Value::Null;
    match file.as_str() {
        "sst" => {
            let (b, e) = build_sst(build, &pristine_path);
            regions = sst_regions(&pristine_path);
            let mut lo = 0usize;
            for r in regions.iter().filter(|r| r.kind == "data") {
                blocks.push((lo, lo + r.aux as usize));
                lo += r.aux as usize;
            }
            let mut acc = sst::Setsum::default();
            for x in &e { match &x.2 { Some(v) => acc.put(&x.0, x.1, v), None => acc.del(&x.0, x.1) } }
            setsum = acc.digest();
            bytes = b;
            entries = e;
        }
        "log" => {
            let (b, e, pb) = build_log(build, &pristine_path);
            regions = log_regions(&b);
            bytes = b;
            entries = e;
            per_batch = pb;
        }
        "mani" => {
            let (b, _) = build_mani(build, &pristine_path);
            regions = mani_regions(&b);
            // pristine edits as the iterator renders them, and the state after each prefix of edits
            for e in mani::ManifestIterator::open(mani::MANIFEST(&pristine_path)).unwrap() { edits.push(edit_json(&e.unwrap())); }
            let mut cut = 0usize;
            let r0 = scratch.join("prefix");
            for i in 0..=edits.len() {
                let _ = std::fs::remove_dir_all(&r0);
                std::fs::create_dir_all(&r0).unwrap();
                std::fs::write(mani::MANIFEST(&r0), &b[..cut]).unwrap();
                prefix_states.push(mani_state(&mani::Manifest::open(mani_opts(), &r0).unwrap()));
                if i < edits.len() {
                    // the end of edit i+1: its separator's newline
                    cut = regions.iter().find(|r| r.kind == "sepnl" && r.aux == i as u64 + 1).unwrap().limit as usize;
                }
            }
            pristine_state = prefix_states[edits.len()].clone();
            bytes = b;
        }
        f => tool_error(&format!("unknown file kind {f}")),
    }
    // sanity of the region map: regions tile the file
    let mut at = 0u64;
    for r in &regions {
        if r.start != at { tool_error(&format!("regions do not tile the file at {at}: {r:?}")); }
        at = r.limit;
    }
    if at != bytes.len() as u64 { tool_error(&format!("regions end at {at}, file has {} bytes", bytes.len())); }
    let layout: Vec<Value> = regions.iter().map(|r| json!({"kind": r.kind, "start": r.start, "limit": r.limit, "aux": r.aux, "frame": r.frame})).collect();
    writeln!(out, "{}", json!({"ev": "layout", "file": file, "size": bytes.len(), "regions": layout, "entries": entries.len(),
        "blocks": blocks.iter().map(|(lo, hi)| hi - lo).collect::<Vec<_>>(), "batches": per_batch, "edits": edits.len()})).unwrap();
    // the case list: explicit cases, then sweeps
    let mut cases: Vec<Value> = doc["cases"].as_array().cloned().unwrap_or_default();
    if let Some(sw) = doc["sweep"].as_object() {
        let lo = sw.get("lo").and_then(|v| v.as_u64()).unwrap_or(0);
        let hi = sw.get("hi").and_then(|v| v.as_u64()).unwrap_or(bytes.len() as u64).min(bytes.len() as u64);
        let stride = sw.get("stride").and_then(|v| v.as_u64()).unwrap_or(1).max(1);
        let mut off = lo;
        while off < hi {
            for b in sw.get("bits").and_then(|v| v.as_array()).cloned().unwrap_or_default() {
                cases.push(json!({"dmgs": [{"kind": "flip", "off": off, "bit": b}]}));
            }
            for b in sw.get("bytes").and_then(|v| v.as_array()).cloned().unwrap_or_default() {
                cases.push(json!({"dmgs": [{"kind": "over", "off": off, "byte": b}]}));
            }
            if sw.get("trunc").and_then(|v| v.as_bool()).unwrap_or(false) {
                cases.push(json!({"dmgs": [{"kind": "trunc", "len": off}]}));
            }
            off += stride;
        }
    }
    let mut rng = doc["seed"].as_u64().unwrap_or(1) | 1;
    let mut n = 0u64;
    let mut worst: Vec<Value> = vec![];
    for case in &cases {
        let mut b = bytes.clone();
        let mut applied: Vec<Value> = vec![];
        for d in case["dmgs"].as_array().unwrap() {
            if let Some(a) = apply(&mut b, &regions, d, &mut rng) { applied.push(a); }
        }
        if applied.is_empty() { continue; }
        // damage that a later truncation removed again did not happen
        let final_len = b.len() as u64;
        for a in applied.iter_mut() {
            let cut = a["kind"] != "trunc" && a["kind"] != "extend" && a["off"].as_u64().unwrap() >= final_len;
            a["cut"] = json!(cut);
        }
        inflight(&json!({"doc": {"file": file, "build": build, "seed": doc["seed"], "cases": [case]}}));
        let ops = match file.as_str() {
            "sst" => { std::fs::write(&damaged_path, &b).unwrap(); read_sst(&damaged_path, &entries, &blocks, &setsum) }
            "log" => read_log(&b, &entries),
            _ => read_mani(&damaged_path, &b, &edits, &pristine_state, &prefix_states),
        };
        // an append-only file that was truncated AND damaged otherwise: what the readers do with the truncation alone
        let mut ops = ops;
        let has_trunc = applied.iter().any(|a| a["kind"] == "trunc");
        let has_other = applied.iter().any(|a| a["kind"] != "trunc" && a["noop"] == false && a["cut"] == false);
        if (file == "log" || file == "mani") && has_trunc && has_other {
            let mut tb = bytes.clone();
            for d in case["dmgs"].as_array().unwrap() {
                if d["kind"] == "trunc" { let _ = apply(&mut tb, &regions, d, &mut rng); }
            }
            let base_ops = if file == "log" { read_log(&tb, &entries) } else { read_mani(&damaged_path, &tb, &edits, &pristine_state, &prefix_states) };
            for o in ops.iter_mut() {
                if let Some(b) = base_ops.iter().find(|b| b["op"] == o["op"]) {
                    let base = if b["status"] != "ok" { -1 } else if b.get("delivered").is_some() { b["delivered"].as_i64().unwrap() } else { b["prefix"].as_i64().unwrap_or(-1) };
                    o["base"] = json!(base);
                }
            }
        }
        n += 1;
        let ev = json!({"ev": "case", "file": file, "dmgs": applied, "ops": ops, "spec": case});
        if worst.len() < 3 && ops.iter().any(|o| o["status"] == "panic") { worst.push(ev.clone()); }
        writeln!(out, "{ev}").unwrap();
    }
    writeln!(out, "{}", json!({"ev": "end"})).unwrap();
    out.flush().unwrap();
    let _ = std::fs::remove_dir_all(&scratch);
    println!("RESULT {}", json!({"evaluations": n, "steps": n, "distinct": n, "known": {}, "violations": [], "samples": worst, "extra": {}}));
    std::process::exit(0);
}
