//! C18: LRU replay (Lru.tla behaviours) and coalescing-queue stress traces (Trace_Coalesce.tla).
use crate::common::*;
use serde_json::{Value, json};
use std::io::Write;
use std::panic::{AssertUnwindSafe, catch_unwind};
use std::sync::atomic::{AtomicU64, Ordering};
use std::sync::{Arc, Mutex};
use sync42::lru::{LeastRecentlyUsedCache, Value as LruValue};
use sync42::work_coalescing_queue::{WorkCoalescingCore, WorkCoalescingQueue};

#[derive(Clone, Debug)]
struct Sz(usize);
impl LruValue for Sz {
    fn approximate_size(&self) -> usize {
        self.0
    }
}

type Cache = LeastRecentlyUsedCache<u64, Sz>;

fn lru_apply(c: &Cache, op: &Value) -> (u64, u64) {
    match op[0].as_str().unwrap() {
        "insert" => {
            c.insert(op[1].as_u64().unwrap(), Sz(op[2].as_u64().unwrap() as usize));
            (0, 0)
        }
        "insert_no_evict" => {
            c.insert_no_evict(op[1].as_u64().unwrap(), Sz(op[2].as_u64().unwrap() as usize));
            (0, 0)
        }
        "lookup" => (c.lookup(&op[1].as_u64().unwrap()).map(|s| s.0 as u64).unwrap_or(0), 0),
        "remove" => {
            c.remove(&op[1].as_u64().unwrap());
            (0, 0)
        }
        "pop" => c.pop().map(|(k, v)| (k, v.0 as u64)).unwrap_or((0, 0)),
        x => tool_error(&format!("lru op {x}")),
    }
}

fn drain(c: &Cache) -> Vec<(u64, u64)> {
    let mut out = vec![];
    while let Some((k, v)) = c.pop() {
        out.push((k, v.0 as u64));
        if out.len() > 1000 {
            break;
        }
    }
    out
}

fn pairs(v: &Value) -> Vec<(u64, u64)> {
    v.as_array().unwrap().iter().map(|p| (p[0].as_u64().unwrap(), p[1].as_u64().unwrap())).collect()
}

pub fn lru(args: &[String]) -> ! {
    let (recs, bad) = read_replay_lines(&args[0], "LRU");
    if bad > 0 {
        tool_error(&format!("{bad} LRU lines did not parse"));
    }
    std::panic::set_hook(Box::new(|_| {}));
    let mut rep = Report::default();
    for rec in &recs {
        rep.evaluations += 1;
        inflight(rec);
        let cap = rec["cap"].as_u64().unwrap() as usize;
        let h = rec["h"].as_array().unwrap();
        let exts = rec["n"].as_array().unwrap();
        let mut bad_case: Option<Value> = None;
        for run in 0..=exts.len() {
            let r = catch_unwind(AssertUnwindSafe(|| -> Option<Value> {
                let c: Cache = LeastRecentlyUsedCache::new(cap);
                for (i, st) in h.iter().enumerate() {
                    let got = lru_apply(&c, &st[0]);
                    let want = (st[1][0].as_u64().unwrap(), st[1][1].as_u64().unwrap());
                    let size = c.approximate_size() as u64;
                    if run == 0 && (got != want || size != st[2].as_u64().unwrap()) {
                        return Some(json!({"at": i, "op": st[0], "ret": [got.0, got.1], "expected_ret": st[1], "size": size, "expected_size": st[2]}));
                    }
                }
                if run == 0 {
                    let d = drain(&c);
                    if d != pairs(&rec["drain"]) {
                        return Some(json!({"drain": d, "expected": rec["drain"]}));
                    }
                } else {
                    let x = &exts[run - 1];
                    let got = lru_apply(&c, &x[0]);
                    let want = (x[1][0].as_u64().unwrap(), x[1][1].as_u64().unwrap());
                    let size = c.approximate_size() as u64;
                    let d = drain(&c);
                    if got != want || size != x[2].as_u64().unwrap() || d != pairs(&x[3]) {
                        return Some(json!({"after": h.len(), "op": x[0], "ret": [got.0, got.1], "expected_ret": x[1], "size": size,
                                           "expected_size": x[2], "drain": d, "expected_drain": x[3]}));
                    }
                }
                None
            }));
            rep.steps += 1;
            match r {
                Ok(None) => {}
                Ok(Some(v)) => {
                    bad_case = Some(v);
                    break;
                }
                Err(_) => {
                    bad_case = Some(json!({"panic": true, "run": run}));
                    break;
                }
            }
        }
        if let Some(b) = bad_case {
            rep.violation(json!({"record": rec, "mismatch": b}));
        }
        if rep.evaluations % 53 == 1 {
            rep.sample(json!({"cap": cap, "h": rec["h"], "drain": rec["drain"]}));
        }
    }
    rep.distinct = rep.evaluations;
    rep.finish()
}

// ---------------------------------------------------------------------------------------------
// coalescing queue under stress: every call, every batch the core sees, every return, in one order

struct Core {
    policy: String,
    seq: Arc<AtomicU64>,
    log: Arc<Mutex<Vec<Value>>>,
}

impl WorkCoalescingCore<u64, u64> for Core {
    type InputAccumulator = Vec<u64>;
    type OutputIterator<'a> = std::vec::IntoIter<u64>;

    fn can_batch(&self, acc: &Vec<u64>, _other: &u64) -> bool {
        match self.policy.as_str() {
            "all" => true,
            "limit2" => acc.len() < 2,
            "limit5" => acc.len() < 5,
            _ => false,
        }
    }
    fn batch(&mut self, mut acc: Vec<u64>, other: u64) -> Vec<u64> {
        acc.push(other);
        acc
    }
    fn work(&mut self, taken: usize, acc: Vec<u64>) -> Self::OutputIterator<'_> {
        let n = self.seq.fetch_add(1, Ordering::SeqCst);
        self.log.lock().unwrap().push(json!({"n": n, "ev": "work", "batch": acc, "taken": taken}));
        // a little work so that waiters pile up behind the leader
        std::thread::yield_now();
        acc.into_iter().map(|x| x + 1_000_000).collect::<Vec<_>>().into_iter()
    }
}

pub fn coalesce(args: &[String]) -> ! {
    // vh coalesce-stress <threads> <iterations> <policy> <out.ndjson> <timeout secs>
    let nthreads: u64 = args[0].parse().unwrap();
    let iters: u64 = args[1].parse().unwrap();
    let policy = args[2].clone();
    let timeout: u64 = args[4].parse().unwrap();
    inflight(&json!({"coalesce_stress": {"threads": nthreads, "iters": iters, "policy": policy, "slots": args.get(5)}}));
    let seq = Arc::new(AtomicU64::new(1));
    let log = Arc::new(Mutex::new(Vec::<Value>::new()));
    // optional 6th argument: ring size of the wait list (0 = the default of 65536)
    let slots: usize = args.get(5).and_then(|s| s.parse().ok()).unwrap_or(0);
    let core = Core { policy: policy.clone(), seq: Arc::clone(&seq), log: Arc::clone(&log) };
    let q = Arc::new(if slots == 0 { WorkCoalescingQueue::new(core) } else { WorkCoalescingQueue::verif_with_slots(core, slots) });
    let finished = Arc::new(AtomicU64::new(0));
    let mut handles = vec![];
    for t in 0..nthreads {
        let q = Arc::clone(&q);
        let seq = Arc::clone(&seq);
        let log = Arc::clone(&log);
        let finished = Arc::clone(&finished);
        handles.push(std::thread::spawn(move || {
            for i in 0..iters {
                let input = t * 100_000 + i + 1;
                let n = seq.fetch_add(1, Ordering::SeqCst);
                log.lock().unwrap().push(json!({"n": n, "ev": "call", "t": t, "input": input}));
                let out = q.do_work(input);
                let n = seq.fetch_add(1, Ordering::SeqCst);
                log.lock().unwrap().push(json!({"n": n, "ev": "ret", "t": t, "input": input, "output": out}));
            }
            finished.fetch_add(1, Ordering::SeqCst);
        }));
    }
    let start = std::time::Instant::now();
    let mut hung = false;
    while finished.load(Ordering::SeqCst) < nthreads {
        if start.elapsed().as_secs() > timeout {
            hung = true;
            break;
        }
        std::thread::sleep(std::time::Duration::from_millis(5));
    }
    let mut events = log.lock().unwrap().clone();
    events.sort_by_key(|e| e["n"].as_u64().unwrap());
    let mut f = std::io::BufWriter::new(std::fs::File::create(&args[3]).unwrap());
    writeln!(f, "{}", json!({"n": 0, "ev": "start", "threads": nthreads, "iters": iters, "policy": policy, "slots": slots})).unwrap();
    for e in &events {
        writeln!(f, "{e}").unwrap();
    }
    writeln!(f, "{}", json!({"n": seq.load(Ordering::SeqCst), "ev": if hung { "hang" } else { "end" }, "finished": finished.load(Ordering::SeqCst)})).unwrap();
    f.flush().unwrap();
    let mut rep = Report::default();
    rep.evaluations = 1;
    rep.steps = events.len() as u64;
    if hung {
        rep.known("hang");
        println!("RESULT {}", json!({"evaluations": 1, "steps": rep.steps, "distinct": 1, "known": {"hang": 1}, "violations": [], "samples": [], "extra": {}}));
        std::process::exit(0);
    }
    rep.finish()
}
