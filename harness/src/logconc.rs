//! C12 (concurrent half): threads appending through ConcurrentLogBuilder under the syscall shim.
//! Marks (append begins / returned) are interleaved by the shim with the write and fdatasync calls;
//! afterwards the file is read back and the end offset of every batch is reported.
use crate::common::*;
use crate::shimmark::mark;
use serde_json::{Value, json};
use sst::Builder;
use sst::log::{ConcurrentLogBuilder, LogIterator, LogOptions, WriteBatch};
use std::io::Cursor;
use std::sync::Arc;

pub fn main(args: &[String]) -> ! {
    // vh logconc-stress <doc.json> <log file> <out.json>
    let doc: Value = serde_json::from_str(&std::fs::read_to_string(&args[0]).unwrap()).unwrap();
    inflight(&doc);
    let path = std::path::PathBuf::from(&args[1]);
    let _ = std::fs::remove_file(&path);
    std::fs::create_dir_all(path.parent().unwrap()).unwrap();
    let threads = doc["threads"].as_u64().unwrap_or(4);
    let per = doc["per"].as_u64().unwrap_or(20);
    let big = doc["big"].as_u64().unwrap_or(0) as usize;
    let log = Arc::new(ConcurrentLogBuilder::new(LogOptions::default(), &path).unwrap());
    let mut handles = vec![];
    for t in 0..threads {
        let log = Arc::clone(&log);
        handles.push(std::thread::spawn(move || {
            let mut x = 0x9E3779B97F4A7C15u64 ^ (t + 1);
            for i in 0..per {
                x ^= x << 13; x ^= x >> 7; x ^= x << 17;
                let id = (t + 1) * 1000 + i + 1;
                let is_big = big > 0 && x % 5 == 0;
                let entries = if is_big { 6 + x % 9 } else { 1 + x % 4 };
                let vlen = if is_big { big.min(30000) } else { (x >> 8) as usize % 200 };
                let mut wb = WriteBatch::default();
                for e in 0..entries {
                    if (x >> 20) % 5 == 0 && e == 0 { wb.del(format!("k{e}").as_bytes(), id).unwrap(); }
                    else { wb.put(format!("k{e}").as_bytes(), id, &vec![b'a' + (e as u8); vlen]).unwrap(); }
                }
                mark(&json!({"ev": "ab", "id": id, "entries": entries}));
                let r = log.append(wb);
                mark(&json!({"ev": "ae", "id": id, "ok": r.is_ok()}));
                // a bare fsync() now and then: a request with watermark 0 queued among the appenders' requests
                if (x >> 33) % 3 == 0 {
                    let r = log.fsync();
                    mark(&json!({"ev": "fs", "ok": r.is_ok()}));
                }
            }
        }));
    }
    let mut died = 0;
    for h in handles { if h.join().is_err() { died += 1; } }
    drop(log);
    // read back: the ids in file order (runs), and for every frame end how many entries a reader has by then
    let bytes = std::fs::read(&path).unwrap();
    let mut ids: Vec<u64> = vec![];
    let mut end = "end";
    let mut it = LogIterator::from_reader(LogOptions::default(), Cursor::new(&bytes[..])).unwrap();
    loop {
        match it.next() {
            Ok(Some(kvr)) => ids.push(kvr.timestamp),
            Ok(None) => break,
            Err(_) => { end = "error"; break; }
        }
    }
    // frame ends by walking the framing (length byte, header with size, body; zero = padding to the boundary)
    let mut ends: Vec<usize> = vec![];
    let mut off = 0usize;
    while off < bytes.len() {
        let l = bytes[off] as usize;
        if l == 0 { off = ((off >> 20) + 1) << 20; continue; }
        let hdr = &bytes[off + 1..off + 1 + l];
        let (mut size, mut i) = (0usize, 0usize);
        while i < hdr.len() {
            let t = hdr[i];
            i += 1;
            if t == 0x50 || t == 0x58 {
                let (mut v, mut sh) = (0usize, 0);
                loop { let b = hdr[i]; i += 1; v |= ((b & 0x7f) as usize) << sh; sh += 7; if b < 128 { break; } }
                if t == 0x50 { size = v; }
            } else {
                i += 4;
            }
        }
        off += 1 + l + size;
        ends.push(off);
    }
    // entries delivered by a reader of the first `e` bytes, for every frame end e
    let mut by_end: Vec<[usize; 2]> = vec![];
    for e in &ends {
        let mut n = 0usize;
        let mut it = LogIterator::from_reader(LogOptions::default(), Cursor::new(&bytes[..*e])).unwrap();
        while let Ok(Some(_)) = it.next() { n += 1; }
        by_end.push([*e, n]);
    }
    // the end offset of the frame that completes each batch (entry index -> first frame end with more entries)
    let mut batch_end = serde_json::Map::new();
    for (idx, id) in ids.iter().enumerate() {
        let e = by_end.iter().find(|p| p[1] > idx).map(|p| p[0]).unwrap_or(usize::MAX >> 8);
        let cur = batch_end.get(&id.to_string()).and_then(|v| v.as_u64()).unwrap_or(0) as usize;
        batch_end.insert(id.to_string(), json!(cur.max(e)));
    }
    let mut runs: Vec<[u64; 2]> = vec![];
    for id in &ids {
        match runs.last_mut() { Some(r) if r[0] == *id => r[1] += 1, _ => runs.push([*id, 1]) }
    }
    std::fs::write(&args[2], json!({"runs": runs, "end": end, "size": bytes.len(), "batch_end": batch_end, "threads_died": died, "total": threads * per}).to_string()).unwrap();
    let _ = std::fs::remove_file(&path);
    println!("RESULT {}", json!({"evaluations": 1, "steps": ids.len(), "distinct": 1, "known": {}, "violations": [], "samples": [], "extra": {}}));
    std::process::exit(0);
}
