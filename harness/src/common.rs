//! Shared plumbing: reading TLC REPLAY lines, reporting results.
use serde_json::{Value, json};
use std::io::{BufRead, BufReader};

/// Read the JSON payloads of `<<"REPLAY", "...">>` lines from a file of TLC output.
/// Returns (payloads, number of REPLAY lines that failed to parse).
pub fn read_replay_lines(path: &str, tag: &str) -> (Vec<Value>, usize) {
    let f = std::fs::File::open(path).unwrap_or_else(|e| tool_error(&format!("open {path}: {e}")));
    let prefix = format!("<<\"{tag}\", ");
    let mut out = Vec::new();
    let mut bad = 0usize;
    for line in BufReader::new(f).lines() {
        let line = match line {
            Ok(l) => l,
            Err(_) => {
                bad += 1;
                continue;
            }
        };
        let line = line.trim();
        if let Some(rest) = line.strip_prefix(&prefix) {
            if let Some(lit) = rest.strip_suffix(">>") {
                // lit is a TLA+ string literal whose escapes are JSON compatible
                match serde_json::from_str::<String>(lit) {
                    Ok(s) => match serde_json::from_str::<Value>(&s) {
                        Ok(v) => out.push(v),
                        Err(_) => bad += 1,
                    },
                    Err(_) => bad += 1,
                }
            } else {
                bad += 1;
            }
        }
    }
    (out, bad)
}

/// Exit code 2: the tool, not the code under test, failed.
pub fn tool_error(msg: &str) -> ! {
    eprintln!("TOOL-ERROR: {msg}");
    std::process::exit(2);
}

/// Map a model key (small natural) to the bytes used against the implementation.
/// 0 is the empty key (only ever used as a seek target / bound), i >= 1 is a one-letter key.
pub fn key_bytes(k: i64) -> Vec<u8> {
    if k <= 0 { vec![] } else { vec![b'a' + (k as u8) - 1] }
}

pub fn key_of_bytes(b: &[u8]) -> i64 {
    if b.is_empty() { 0 } else { (b[0] - b'a') as i64 + 1 }
}

pub fn value_bytes(k: i64, ts: i64) -> Vec<u8> {
    format!("v{k}.{ts}").into_bytes()
}

#[derive(Default)]
pub struct Report {
    pub evaluations: u64,
    pub steps: u64,
    pub distinct: u64,
    pub known: std::collections::BTreeMap<String, u64>,
    pub violations: Vec<Value>,
    pub samples: Vec<Value>,
    pub extra: serde_json::Map<String, Value>,
}

impl Report {
    pub fn violation(&mut self, v: Value) {
        if self.violations.len() < 50 {
            self.violations.push(v);
        } else {
            // keep counting
            let n = self.extra.entry("violations_dropped").or_insert(json!(0));
            *n = json!(n.as_u64().unwrap_or(0) + 1);
        }
    }
    pub fn known(&mut self, name: &str) {
        *self.known.entry(name.to_string()).or_insert(0) += 1;
    }
    pub fn sample(&mut self, v: Value) {
        if self.samples.len() < 3 {
            self.samples.push(v);
        }
    }
    pub fn finish(self) -> ! {
        let nviol = self.violations.len();
        let out = json!({
            "evaluations": self.evaluations,
            "steps": self.steps,
            "distinct": self.distinct,
            "known": self.known,
            "violations": self.violations,
            "samples": self.samples,
            "extra": self.extra,
        });
        println!("RESULT {}", out);
        std::process::exit(if nviol > 0 { 1 } else { 0 });
    }
}
