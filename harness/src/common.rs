//! Shared plumbing: reading TLC REPLAY lines, reporting results.
use serde_json::{Value, json};
use std::io::{BufRead, BufReader};

/// Read the JSON payloads of `<<"REPLAY", "...">>` lines from a file of TLC output.
/// Returns (payloads, number of REPLAY lines that failed to parse).
pub fn read_replay_lines(path: &str, tag: &str) -> (Vec<Value>, usize) {
    let f = std::fs::File::open(path).unwrap_or_else(|e| tool_error(&format!("open {path}: {e}")));
    let prefix = format!("<<\"{tag}\", ");
    let mut out = Vec::new();
    let mut bad = 0usize;
    for line in BufReader::new(f).lines() {
        let line = match line {
            Ok(l) => l,
            Err(_) => {
                bad += 1;
                continue;
            }
        };
        let line = line.trim();
        if let Some(rest) = line.strip_prefix(&prefix) {
            if let Some(lit) = rest.strip_suffix(">>") {
                // lit is a TLA+ string literal whose escapes are JSON compatible
                match serde_json::from_str::<String>(lit) {
                    Ok(s) => match serde_json::from_str::<Value>(&s) {
                        Ok(v) => out.push(v),
                        Err(_) => bad += 1,
                    },
                    Err(_) => bad += 1,
                }
            } else {
                bad += 1;
            }
        }
    }
    (out, bad)
}

/// Crash isolation: before a case is run against the code under test it is written to the file
/// named by VH_INFLIGHT; if the process dies (abort, signal) the driver reports that case.
pub fn inflight(v: &Value) {
    if let Ok(p) = std::env::var("VH_INFLIGHT") {
        let _ = std::fs::write(p, v.to_string());
    }
}

/// Exit code 2: the tool, not the code under test, failed.
pub fn tool_error(msg: &str) -> ! {
    eprintln!("TOOL-ERROR: {msg}");
    std::process::exit(2);
}

/// Key shapes: the model's keys are small naturals; the implementation sees byte strings in the
/// same order.  VH_KEYSET selects the shape (plain letters, shared prefixes, binary extremes).
fn keyset() -> &'static [&'static [u8]] {
    static PLAIN: &[&[u8]] = &[b"a", b"b", b"c", b"d", b"e", b"f", b"g", b"h"];
    static PREFIX: &[&[u8]] = &[b"a", b"aa", b"aaa", b"ab", b"b", b"ba", b"bb", b"c"];
    static BIN: &[&[u8]] = &[b"\x00", b"\x00\x00", b"\x00\xff", b"\x7f", b"\xfe\xff\xff", b"\xff", b"\xff\x00", b"\xff\xff"];
    // the empty key as a stored key (only for table facts: as a seek target it coincides with "before every key")
    static EMPTY1: &[&[u8]] = &[b"", b"\x00", b"a", b"b", b"c", b"d", b"e", b"f"];
    match std::env::var("VH_KEYSET").as_deref() {
        Ok("empty1") => EMPTY1,
        Ok("prefix") => PREFIX,
        Ok("bin") => BIN,
        _ => PLAIN,
    }
}

/// 0 is the empty key (only ever a seek target / bound), i >= 1 the i-th key of the key set,
/// anything beyond the key set a key greater than all of them.
pub fn key_bytes(k: i64) -> Vec<u8> {
    let ks = keyset();
    if k <= 0 {
        vec![]
    } else if (k as usize) <= ks.len() {
        ks[k as usize - 1].to_vec()
    } else {
        vec![0xff; 12]
    }
}

pub fn key_of_bytes(b: &[u8]) -> i64 {
    if b.is_empty() {
        return 0;
    }
    for (i, k) in keyset().iter().enumerate() {
        if *k == b {
            return i as i64 + 1;
        }
    }
    -7
}

pub fn value_bytes(k: i64, ts: i64) -> Vec<u8> {
    let mut v = format!("v{k}.{ts}").into_bytes();
    let pad: usize = std::env::var("VH_PAD").ok().and_then(|s| s.parse().ok()).unwrap_or(0);
    v.resize(v.len() + pad, b'.');
    v
}

#[derive(Default)]
pub struct Report {
    pub evaluations: u64,
    pub steps: u64,
    pub distinct: u64,
    pub known: std::collections::BTreeMap<String, u64>,
    pub violations: Vec<Value>,
    pub samples: Vec<Value>,
    pub extra: serde_json::Map<String, Value>,
}

impl Report {
    pub fn violation(&mut self, v: Value) {
        if self.violations.len() < 50 {
            self.violations.push(v);
        } else {
            // keep counting
            let n = self.extra.entry("violations_dropped").or_insert(json!(0));
            *n = json!(n.as_u64().unwrap_or(0) + 1);
        }
    }
    pub fn known(&mut self, name: &str) {
        *self.known.entry(name.to_string()).or_insert(0) += 1;
    }
    pub fn sample(&mut self, v: Value) {
        if self.samples.len() < 3 {
            self.samples.push(v);
        }
    }
    pub fn finish(self) -> ! {
        let nviol = self.violations.len();
        let out = json!({
            "evaluations": self.evaluations,
            "steps": self.steps,
            "distinct": self.distinct,
            "known": self.known,
            "violations": self.violations,
            "samples": self.samples,
            "extra": self.extra,
        });
        println!("RESULT {}", out);
        std::process::exit(if nviol > 0 { 1 } else { 0 });
    }
}
