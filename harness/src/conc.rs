//! C06 / C20: free-running multi-threaded runs of the real KeyValueStore (flush thread, compaction
//! threads, writers issuing multi-key batches, point readers, scanners), every call's begin and
//! end stamped from one atomic counter, for validation against Trace_Conc.tla.
use crate::common::*;
use arrrg::CommandLine;
use lsmtk::{KeyValueStore, LsmtkOptions, WriteBatch};
use serde_json::{Value, json};
use sst::Cursor;
use std::io::Write;
use std::ops::Bound;
use std::sync::atomic::{AtomicU64, Ordering};
use std::sync::{Arc, Mutex};

fn key(g: u64, j: u64) -> Vec<u8> {
    format!("g{g:02}k{j:07}").into_bytes()
}
fn val(i: u64, pad: usize) -> Vec<u8> {
    let mut v = format!("{i}|").into_bytes();
    v.resize(v.len() + pad, b'.');
    v
}
fn val_id(v: &[u8]) -> u64 {
    let end = v.iter().position(|c| *c == b'|').unwrap_or(v.len());
    std::str::from_utf8(&v[..end]).ok().and_then(|s| s.parse().ok()).unwrap_or(u64::MAX)
}

pub fn main(args: &[String]) -> ! {
    // vh conc-stress <doc.json> <root> <out.ndjson>
    let doc: Value = serde_json::from_str(&std::fs::read_to_string(&args[0]).unwrap()).unwrap();
    inflight(&doc);
    let root = std::path::PathBuf::from(&args[1]);
    let _ = std::fs::remove_dir_all(&root);
    let writers = doc["writers"].as_u64().unwrap_or(2);
    let readers = doc["readers"].as_u64().unwrap_or(1);
    let scanners = doc["scanners"].as_u64().unwrap_or(1);
    let compactors = doc["compactors"].as_u64().unwrap_or(1);
    let iters = doc["iters"].as_u64().unwrap_or(200);
    let gkeys = doc["group_keys"].as_u64().unwrap_or(2);
    let pad = doc["pad"].as_u64().unwrap_or(0) as usize;
    let timeout = doc["timeout"].as_u64().unwrap_or(60);
    let mut a: Vec<String> = vec!["--path".into(), root.to_string_lossy().to_string()];
    if let Some(m) = doc["opts"].as_object() {
        for (k, v) in m {
            a.push(format!("--{k}"));
            a.push(match v { Value::String(s) => s.clone(), x => x.to_string() });
        }
    }
    let refs: Vec<&str> = a.iter().map(|s| s.as_str()).collect();
    let (o, _) = LsmtkOptions::from_arguments_relaxed("vh", &refs);
    let store = Arc::new(KeyValueStore::open(o).unwrap_or_else(|e| tool_error(&format!("open: {e:?}"))));
    lsmtk::verif::set_yield_seed(doc["yield_seed"].as_u64().unwrap_or(0));
    let seq = Arc::new(AtomicU64::new(1));
    let log = Arc::new(Mutex::new(Vec::<Value>::new()));
    let finished = Arc::new(AtomicU64::new(0));
    let errors = Arc::new(Mutex::new(Vec::<String>::new()));
    {
        let s = Arc::clone(&store);
        let e = Arc::clone(&errors);
        std::thread::spawn(move || { if let Err(err) = s.memtable_thread() { e.lock().unwrap().push(format!("memtable thread: {err:?}")); } });
    }
    for _ in 0..compactors {
        let s = Arc::clone(&store);
        let e = Arc::clone(&errors);
        std::thread::spawn(move || { if let Err(err) = s.compaction_thread() { e.lock().unwrap().push(format!("compaction thread: {err:?}")); } });
    }
    let stamp = |seq: &AtomicU64| seq.fetch_add(1, Ordering::SeqCst);
    let mut handles = vec![];
    for g in 0..writers {
        let (store, seq, log, finished) = (Arc::clone(&store), Arc::clone(&seq), Arc::clone(&log), Arc::clone(&finished));
        handles.push(std::thread::spawn(move || {
            for i in 1..=iters {
                let n = stamp(&seq);
                log.lock().unwrap().push(json!({"n": n, "ev": "wb", "g": g + 1, "i": i}));
                let r = if gkeys == 1 {
                    store.put(&key(g, 0), &val(i, pad))
                } else {
                    let mut wb = WriteBatch::default();
                    for j in 0..gkeys {
                        wb.put(&key(g, j), &val(i, pad));
                    }
                    store.write(wb)
                };
                let n = stamp(&seq);
                log.lock().unwrap().push(json!({"n": n, "ev": "we", "g": g + 1, "i": i, "ok": r.is_ok(), "err": r.err().map(|e| format!("{e:?}").chars().take(200).collect::<String>()).unwrap_or_default()}));
            }
            finished.fetch_add(1, Ordering::SeqCst);
        }));
    }
    for r in 0..readers {
        let (store, seq, log, finished) = (Arc::clone(&store), Arc::clone(&seq), Arc::clone(&log), Arc::clone(&finished));
        handles.push(std::thread::spawn(move || {
            let mut x = 88172645463325252u64 ^ (r + 1);
            for _ in 0..iters * 2 {
                x ^= x << 13; x ^= x >> 7; x ^= x << 17;
                let g = x % writers;
                let j = (x >> 8) % gkeys;
                let n = stamp(&seq);
                log.lock().unwrap().push(json!({"n": n, "ev": "rb", "r": r + 1}));
                let mut tomb = false;
                let got = store.load(&key(g, j), &mut tomb);
                let n = stamp(&seq);
                let v = match &got { Ok(Some(v)) => val_id(v) as i64, Ok(None) => 0, Err(_) => -1 };
                log.lock().unwrap().push(json!({"n": n, "ev": "re", "r": r + 1, "g": g + 1, "j": j + 1, "v": v}));
            }
            finished.fetch_add(1, Ordering::SeqCst);
        }));
    }
    for s in 0..scanners {
        let (store, seq, log, finished) = (Arc::clone(&store), Arc::clone(&seq), Arc::clone(&log), Arc::clone(&finished));
        handles.push(std::thread::spawn(move || {
            for it in 0..iters {
                let n = stamp(&seq);
                log.lock().unwrap().push(json!({"n": n, "ev": "sb", "s": s + 1}));
                let u: Bound<Vec<u8>> = Bound::Unbounded;
                let mut vals: Vec<[i64; 3]> = vec![];
                let mut err: Option<String> = None;
                match store.range_scan(&u, &u) {
                    Err(e) => err = Some(format!("{e:?}").chars().take(200).collect()),
                    Ok(mut c) => {
                        let back = it % 3 == 2;
                        let r0 = if back { c.seek_to_last() } else { c.seek_to_first() };
                        if let Err(e) = r0 { err = Some(format!("{e:?}").chars().take(200).collect()); }
                        for _ in 0..10000 {
                            if err.is_some() { break; }
                            if let Err(e) = if back { c.prev() } else { c.next() } { err = Some(format!("{e:?}").chars().take(200).collect()); break; }
                            match c.key() {
                                None => break,
                                Some(kr) => {
                                    let ks = String::from_utf8_lossy(kr.key).to_string();
                                    let g: i64 = ks[1..3].parse().unwrap_or(-1);
                                    let j: i64 = ks[4..].parse().unwrap_or(-1);
                                    vals.push([g + 1, j + 1, c.value().map(|v| val_id(v) as i64).unwrap_or(0)]);
                                }
                            }
                        }
                    }
                }
                let n = stamp(&seq);
                log.lock().unwrap().push(json!({"n": n, "ev": "se", "s": s + 1, "vals": vals, "err": err.unwrap_or_default()}));
            }
            finished.fetch_add(1, Ordering::SeqCst);
        }));
    }
    let total = writers + readers + scanners;
    let start = std::time::Instant::now();
    let mut hung = false;
    while finished.load(Ordering::SeqCst) < total {
        if start.elapsed().as_secs() > timeout {
            hung = true;
            break;
        }
        std::thread::sleep(std::time::Duration::from_millis(5));
    }
    let mut events = log.lock().unwrap().clone();
    events.sort_by_key(|e| e["n"].as_u64().unwrap());
    let mut f = std::io::BufWriter::new(std::fs::File::create(&args[2]).unwrap());
    writeln!(f, "{}", json!({"n": 0, "ev": "start", "writers": writers, "gkeys": gkeys, "readers": readers, "scanners": scanners, "compactors": compactors})).unwrap();
    for e in &events {
        writeln!(f, "{e}").unwrap();
    }
    let errs = errors.lock().unwrap().clone();
    writeln!(f, "{}", json!({"n": seq.load(Ordering::SeqCst), "ev": if hung { "hang" } else { "end" }, "finished": finished.load(Ordering::SeqCst),
                              "thread_errors": errs})).unwrap();
    f.flush().unwrap();
    println!("RESULT {}", json!({"evaluations": 1, "steps": events.len(), "distinct": 1, "known": {}, "violations": [], "samples": [], "extra": {"hung": hung}}));
    // background threads never return: leave without joining them
    std::process::exit(0);
}

/// vh ingest-stress <doc.json> <root> <out.ndjson>: threads calling LsmTree::ingest against running
/// compaction threads, tiny thresholds; the watchdog reports calls that never return (C20).
pub fn ingest_stress(args: &[String]) -> ! {
    use sst::{Builder, SstBuilder, SstOptions};
    let doc: Value = serde_json::from_str(&std::fs::read_to_string(&args[0]).unwrap()).unwrap();
    inflight(&doc);
    let root = std::path::PathBuf::from(&args[1]);
    let _ = std::fs::remove_dir_all(&root);
    let ingesters = doc["ingesters"].as_u64().unwrap_or(2);
    let compactors = doc["compactors"].as_u64().unwrap_or(1);
    let iters = doc["iters"].as_u64().unwrap_or(50);
    let nkeys = doc["nkeys"].as_u64().unwrap_or(4);
    let pad = doc["pad"].as_u64().unwrap_or(0) as usize;
    let timeout = doc["timeout"].as_u64().unwrap_or(60);
    let mut a: Vec<String> = vec!["--path".into(), root.to_string_lossy().to_string()];
    if let Some(m) = doc["opts"].as_object() {
        for (k, v) in m {
            a.push(format!("--{k}"));
            a.push(match v { Value::String(s) => s.clone(), x => x.to_string() });
        }
    }
    let refs: Vec<&str> = a.iter().map(|s| s.as_str()).collect();
    let (o, _) = LsmtkOptions::from_arguments_relaxed("vh", &refs);
    let tree = Arc::new(lsmtk::LsmTree::open(o).unwrap_or_else(|e| tool_error(&format!("open: {e:?}"))));
    lsmtk::verif::set_yield_seed(doc["yield_seed"].as_u64().unwrap_or(0));
    let seq = Arc::new(AtomicU64::new(1));
    let ts = Arc::new(AtomicU64::new(10));
    let log = Arc::new(Mutex::new(Vec::<Value>::new()));
    let finished = Arc::new(AtomicU64::new(0));
    let errors = Arc::new(Mutex::new(Vec::<String>::new()));
    let written = Arc::new(Mutex::new(std::collections::BTreeMap::<u64, u64>::new()));
    for _ in 0..compactors {
        let t = Arc::clone(&tree);
        let e = Arc::clone(&errors);
        std::thread::spawn(move || { if let Err(err) = t.compaction_thread() { e.lock().unwrap().push(format!("compaction thread: {err:?}").chars().take(300).collect()); } });
    }
    for g in 0..ingesters {
        let (tree, seq, ts, log, finished, root, written) = (Arc::clone(&tree), Arc::clone(&seq), Arc::clone(&ts), Arc::clone(&log), Arc::clone(&finished), root.clone(), Arc::clone(&written));
        std::thread::spawn(move || {
            let mut x = 0x2545F4914F6CDD1Du64 ^ (g + 1);
            for i in 0..iters {
                x ^= x << 13; x ^= x >> 7; x ^= x << 17;
                let path = root.join("ingest").join(format!("g{g}i{i}.sst"));
                let mut b = SstBuilder::new(SstOptions::default(), &path).unwrap();
                // each ingester owns the keys congruent to its number (ranges interleave, keys do not collide), so
                // that per key the timestamps grow in the order the ingests complete
                let mut ks: Vec<u64> = vec![(x % nkeys) * ingesters + g, ((x >> 9) % nkeys) * ingesters + g];
                ks.sort();
                ks.dedup();
                let mut mine = vec![];
                for k in ks {
                    let t = ts.fetch_add(1, Ordering::SeqCst);
                    b.put(&key(0, k), t, &val(t, pad)).unwrap();
                    mine.push((k, t));
                }
                b.seal().unwrap();
                let n = seq.fetch_add(1, Ordering::SeqCst);
                log.lock().unwrap().push(json!({"n": n, "ev": "ib", "g": g + 1, "i": i + 1}));
                let r = tree.ingest(&path);
                let n = seq.fetch_add(1, Ordering::SeqCst);
                log.lock().unwrap().push(json!({"n": n, "ev": "ie", "g": g + 1, "i": i + 1, "ok": r.is_ok(),
                                                 "err": r.as_ref().err().map(|e| format!("{e:?}").chars().take(200).collect::<String>()).unwrap_or_default()}));
                let _ = std::fs::remove_file(&path);
                if r.is_ok() {
                    let mut w = written.lock().unwrap();
                    for (k, t) in mine { let e = w.entry(k).or_insert(0); if *e < t { *e = t; } }
                }
            }
            finished.fetch_add(1, Ordering::SeqCst);
        });
    }
    let start = std::time::Instant::now();
    let mut hung = false;
    while finished.load(Ordering::SeqCst) < ingesters {
        if start.elapsed().as_secs() > timeout {
            hung = true;
            break;
        }
        std::thread::sleep(std::time::Duration::from_millis(5));
    }
    let l0 = tree.verif_levels()[0].len();
    let mut events = log.lock().unwrap().clone();
    events.sort_by_key(|e| e["n"].as_u64().unwrap());
    let mut f = std::io::BufWriter::new(std::fs::File::create(&args[2]).unwrap());
    writeln!(f, "{}", json!({"n": 0, "ev": "start", "ingesters": ingesters, "iters": iters, "compactors": compactors})).unwrap();
    for e in &events {
        writeln!(f, "{e}").unwrap();
    }
    let errs = errors.lock().unwrap().clone();
    // audit (the compaction threads are still running): every ingested key reads back its newest value
    // and the on-disk history verifies
    let (mut missing, mut wrong, mut verdict) = (0u64, 0u64, String::from("skipped"));
    if !hung {
        for (k, t) in written.lock().unwrap().iter() {
            let mut tomb = false;
            match tree.load(&key(0, *k), &mut tomb) {
                Ok(Some(v)) if v == val(*t, pad) => {}
                Ok(Some(_)) => wrong += 1,
                _ => missing += 1,
            }
        }
        // the verifier is an offline tool: wait until the compaction threads have drained (no compaction
        // finished for a while), and retry if one slipped in between
        let mut attempts: Vec<String> = vec![];
        for _attempt in 0..6 {
            let mut last = lsmtk::verif::compactions_performed();
            let mut quiet = std::time::Instant::now();
            while quiet.elapsed().as_millis() < 400 {
                std::thread::sleep(std::time::Duration::from_millis(20));
                let now = lsmtk::verif::compactions_performed();
                if now != last { last = now; quiet = std::time::Instant::now(); }
            }
            let refs: Vec<&str> = a.iter().map(|s| s.as_str()).collect();
            let (o, _) = LsmtkOptions::from_arguments_relaxed("vh", &refs);
            verdict = match lsmtk::LsmVerifier::open(o) {
                Err(e) => format!("open: {e:?}").chars().take(200).collect(),
                Ok(mut v) => match v.verify() {
                    Ok(()) => "ok".into(),
                    Err(e) if lsmtk::error_code(&e) == Some(lsmtk::CODE_BACKOFF) => "backoff".into(),
                    Err(e) => format!("{e:?}").chars().take(900).collect(),
                },
            };
            attempts.push(verdict.chars().take(60).collect());
            if std::env::var("VH_VERIFY_TRACE").is_ok() { eprintln!("verify attempt: {verdict}"); }
            if verdict == "ok" && lsmtk::verif::compactions_performed() == last { break; }
        }
    }
    writeln!(f, "{}", json!({"n": seq.load(Ordering::SeqCst), "ev": if hung { "hang" } else { "end" }, "finished": finished.load(Ordering::SeqCst),
                              "l0_files": l0, "thread_errors": errs, "missing": missing, "wrong": wrong, "verify": verdict})).unwrap();
    f.flush().unwrap();
    println!("RESULT {}", json!({"evaluations": 1, "steps": events.len(), "distinct": 1, "known": {}, "violations": [], "samples": [], "extra": {"hung": hung}}));
    std::process::exit(0);
}
