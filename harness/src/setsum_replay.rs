//! C14: replay MC_Setsum behaviours against setsum::Setsum and sst::Setsum.
use crate::common::*;
use serde_json::{Value, json};
use setsum::Setsum;
use std::panic::{AssertUnwindSafe, catch_unwind};

fn col_of(v: &Value) -> Option<u32> {
    let h = v[0].as_i64().unwrap();
    let l = v[1].as_i64().unwrap();
    if h < 0 { None } else { Some(((h as u32) << 16) | (l as u32)) }
}

fn with_col(i: usize, c: u32) -> Setsum {
    let mut d = [0u8; 32];
    d[4 * i..4 * i + 4].copy_from_slice(&c.to_le_bytes());
    let s = Setsum::from_digest(d);
    // the hexadecimal spelling of the same 32 bytes is the same setsum (non-canonical columns included)
    let hex: String = d.iter().map(|b| format!("{b:02x}")).collect();
    match Setsum::from_hexdigest(&hex) {
        Some(h) if h.digest() == s.digest() => {}
        _ => panic!("from_hexdigest disagrees with from_digest"),
    }
    s
}

/// Some(column value) or None on panic; Err if another column became non-zero
fn col_result(i: usize, f: impl FnOnce() -> Setsum) -> Result<Option<u32>, String> {
    match catch_unwind(AssertUnwindSafe(f)) {
        Err(_) => Ok(None),
        Ok(s) => {
            let d = s.digest();
            for j in 0..8 {
                if j != i && d[4 * j..4 * j + 4] != [0u8; 4] {
                    return Err(format!("column {j} disturbed"));
                }
            }
            // hexdigest and from_hexdigest must round trip on whatever was produced
            let hex = s.hexdigest();
            match Setsum::from_hexdigest(&hex) {
                Some(s2) if s2.digest() == d => {}
                _ => return Err(format!("hexdigest round trip failed for {hex}")),
            }
            Ok(Some(u32::from_le_bytes(d[4 * i..4 * i + 4].try_into().unwrap())))
        }
    }
}

pub fn main(args: &[String]) -> ! {
    // vh setsum-replay <tlc output> <items.ndjson or -> <replay dir>
    let (recs, bad) = read_replay_lines(&args[0], "SETSUM");
    if bad > 0 {
        tool_error(&format!("{bad} SETSUM lines did not parse"));
    }
    let items: Vec<Value> = if args[1] != "-" {
        std::fs::read_to_string(&args[1]).unwrap().lines().filter(|l| !l.trim().is_empty()).map(|l| serde_json::from_str(l).unwrap()).collect()
    } else {
        vec![]
    };
    std::panic::set_hook(Box::new(|_| {}));
    let mut rep = Report::default();
    let bytes_of = |v: &Value| -> Vec<u8> { v.as_array().unwrap().iter().map(|b| b.as_u64().unwrap() as u8).collect() };
    for rec in &recs {
        rep.evaluations += 1;
        inflight(rec);
        if rec.get("ops").is_some() {
            // multiset level
            let ops = rec["ops"].as_array().unwrap();
            let expect = bytes_of(&rec["digest"]);
            let got = catch_unwind(AssertUnwindSafe(|| {
                let mut s = Setsum::default();
                for (n, op) in ops.iter().enumerate() {
                    let it = &items[op[1].as_u64().unwrap() as usize - 1];
                    let item = bytes_of(&it["item"]);
                    // alternate plain and vectored forms, splitting at a position that moves with n
                    let cut = if item.is_empty() { 0 } else { n % (item.len() + 1) };
                    match (op[0].as_str().unwrap(), n % 2) {
                        ("ins", 0) => s.insert(&item),
                        ("ins", _) => s.insert_vectored(&[&item[..cut], &item[cut..]]),
                        ("rem", 0) => s.remove(&item),
                        ("rem", _) => s.remove_vectored(&[&item[..cut], &[], &item[cut..]]),
                        _ => tool_error("op"),
                    }
                    rep.steps += 1;
                }
                s.digest().to_vec()
            }));
            let ok = matches!(&got, Ok(d) if *d == expect);
            if !ok {
                rep.violation(json!({"record": rec, "observed": got.ok()}));
            }
            if rep.evaluations % 211 == 1 {
                rep.sample(rec.clone());
            }
            continue;
        }
        let i = rec["i"].as_u64().unwrap() as usize - 1;
        let (x, y, z) = (col_of(&rec["x"]).unwrap(), col_of(&rec["y"]).unwrap(), col_of(&rec["z"]).unwrap());
        let checks: Vec<(&str, Result<Option<u32>, String>)> = vec![
            ("xin", col_result(i, || with_col(i, x))),
            ("xy", col_result(i, || with_col(i, x) + with_col(i, y))),
            ("xmy", col_result(i, || with_col(i, x) - with_col(i, y))),
            ("xyz", col_result(i, || (with_col(i, x) + with_col(i, y)) + with_col(i, z))),
            ("xy_y", col_result(i, || (with_col(i, x) + with_col(i, y)) - with_col(i, y))),
        ];
        for (name, got) in checks {
            rep.steps += 1;
            let want = col_of(&rec[name]);
            match got {
                Ok(g) if g == want => {}
                other => {
                    rep.violation(json!({"record": rec, "field": name, "expected": want, "observed": format!("{other:?}")}));
                    break;
                }
            }
        }
        if rep.evaluations % 211 == 1 {
            rep.sample(rec.clone());
        }
    }
    // framing of sst::Setsum::put/del: items carrying key/ts/value
    for it in &items {
        if it.get("key").is_none() {
            continue;
        }
        rep.evaluations += 1;
        let key = bytes_of(&it["key"]);
        let ts = it["ts"].as_u64().unwrap();
        let mut s = sst::Setsum::default();
        if it["tomb"].as_bool().unwrap_or(false) {
            s.del(&key, ts);
        } else {
            s.put(&key, ts, &bytes_of(&it["value"]));
        }
        let mut raw = Setsum::default();
        raw.insert(&bytes_of(&it["item"]));
        if s.digest() != raw.digest() {
            rep.violation(json!({"framing": it, "observed": s.digest().to_vec()}));
        }
    }
    rep.distinct = rep.evaluations;
    rep.finish()
}
