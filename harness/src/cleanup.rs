//! Cleanup.tla, specification -> implementation: every crash image TLC reaches (MC_Cleanup `IMG` lines: manifest
//! fragments, sst/, trash/, logs in the root) is materialised with real files -- tables, write-ahead logs and a manifest
//! built through mani::Manifest -- and reopened by the real KeyValueStore; what the open leaves (listed set, sst/, trash/,
//! readable keys) is compared with what the model's Reopen says.
use crate::common::*;
use arrrg::CommandLine;
use serde_json::{Value, json};
use setsum::Setsum;
use sst::log::{LogBuilder, LogOptions, WriteBatch};
use sst::{Builder, SstBuilder, SstOptions};
use std::collections::{BTreeMap, BTreeSet};
use std::path::{Path, PathBuf};

fn opts(root: &Path) -> lsmtk::LsmtkOptions {
    let args = ["--path".to_string(), root.to_string_lossy().to_string()];
    let refs: Vec<&str> = args.iter().map(|s| s.as_str()).collect();
    lsmtk::LsmtkOptions::from_arguments_relaxed("vh", &refs).0
}

/// no size-triggered roll-over while the fragments are being written: they must come out as the model has them
fn mani_opts() -> mani::ManifestOptions {
    let args = ["--log-rollover-ratio", "1000000000"];
    mani::ManifestOptions::from_arguments_relaxed("vh", &args).0
}

/// the one entry of file `id`: its own key, timestamp and value
fn entry_of(idx: usize, id: &str) -> (Vec<u8>, u64, Vec<u8>) {
    (format!("key-{id}").into_bytes(), 10 + idx as u64, format!("value-of-{id}").into_bytes())
}

struct Universe { ids: Vec<String>, setsum: BTreeMap<String, Setsum>, proto: BTreeMap<String, PathBuf> }

fn universe(scratch: &Path, ids: &BTreeSet<String>) -> Universe {
    let dir = scratch.join("proto");
    std::fs::create_dir_all(&dir).unwrap();
    let mut u = Universe { ids: ids.iter().cloned().collect(), setsum: BTreeMap::new(), proto: BTreeMap::new() };
    for (i, id) in u.ids.iter().enumerate() {
        let p = dir.join(format!("{id}.sst"));
        let _ = std::fs::remove_file(&p);
        let (k, ts, v) = entry_of(i, id);
        let mut b = SstBuilder::new(SstOptions::default(), &p).unwrap();
        b.put(&k, ts, &v).unwrap();
        let sst = b.seal().unwrap();
        u.setsum.insert(id.clone(), Setsum::from_digest(sst.metadata().unwrap().setsum));
        u.proto.insert(id.clone(), p);
    }
    u
}

fn names(v: &Value) -> BTreeSet<String> { v.as_array().unwrap().iter().map(|x| x.as_str().unwrap().to_string()).collect() }

fn sum(u: &Universe, s: &BTreeSet<String>) -> Setsum { let mut acc = Setsum::default(); for f in s { acc += u.setsum[f]; } acc }

fn apply_edit(m: &mut mani::Manifest, u: &Universe, listed: &mut BTreeSet<String>, rm: &BTreeSet<String>, add: &BTreeSet<String>) -> Result<(), String> {
    let input = sum(u, listed);
    for f in rm { listed.remove(f); }
    for f in add { listed.insert(f.clone()); }
    let output = sum(u, listed);
    let mut e = mani::Edit::default();
    for f in rm { e.rm(&u.setsum[f].hexdigest()).map_err(|e| format!("{e:?}"))?; }
    for f in add { e.add(&u.setsum[f].hexdigest()).map_err(|e| format!("{e:?}"))?; }
    e.info('I', &input.hexdigest()).map_err(|e| format!("{e:?}"))?;
    e.info('O', &output.hexdigest()).map_err(|e| format!("{e:?}"))?;
    e.info('D', &(input - output).hexdigest()).map_err(|e| format!("{e:?}"))?;
    m.apply(e).map_err(|e| format!("{e:?}"))
}

fn numbered(mdir: &Path) -> Vec<(u64, PathBuf)> {
    let mut v = vec![];
    for e in std::fs::read_dir(mdir).unwrap().flatten() {
        let n = e.file_name().to_string_lossy().to_string();
        if let Some(x) = n.strip_prefix("MANIFEST.") { if let Ok(k) = x.parse::<u64>() { v.push((k, e.path())); } }
    }
    v.sort();
    v
}

fn listed_on_disk(root: &Path) -> Result<BTreeSet<String>, String> {
    let mut s = BTreeSet::new();
    for edit in mani::ManifestIterator::open(mani::MANIFEST(lsmtk::MANI_ROOT(root))).map_err(|e| format!("{e:?}"))? {
        let edit = edit.map_err(|e| format!("{e:?}"))?;
        for r in edit.rmed() { s.remove(r); }
        for a in edit.added() { s.insert(a.clone()); }
    }
    Ok(s)
}

fn dir_ssts(dir: &Path) -> BTreeSet<String> {
    let mut s = BTreeSet::new();
    if let Ok(rd) = std::fs::read_dir(dir) {
        for e in rd.flatten() {
            let n = e.file_name().to_string_lossy().to_string();
            if let Some(x) = n.strip_suffix(".sst") { s.insert(x.to_string()); }
        }
    }
    s
}

fn materialise_and_reopen(img: &Value, scratch: &Path, u: &Universe) -> Result<Option<Value>, String> {
    let root = scratch.join("db");
    let _ = std::fs::remove_dir_all(&root);
    // the directory skeleton and an empty manifest, by the store itself
    drop(lsmtk::KeyValueStore::open(opts(&root)).map_err(|e| format!("initial open: {e:?}"))?);
    for e in std::fs::read_dir(&root).unwrap().flatten() {
        if e.file_name().to_string_lossy().starts_with("log.") { let _ = std::fs::remove_file(e.path()); }
    }
    let mdir = lsmtk::MANI_ROOT(&root);
    let frags = img["frags"].as_array().unwrap();
    let mut listed: BTreeSet<String> = BTreeSet::new();
    // what the first fragment's roll-up says was listed before it (history the verifier has consumed)
    let pre = names(&frags[0].as_array().unwrap()[0]["add"]);
    {
        let mut m = mani::Manifest::open(mani_opts(), &mdir).map_err(|e| format!("{e:?}"))?;
        if !pre.is_empty() { apply_edit(&mut m, u, &mut listed, &BTreeSet::new(), &pre)?; }
    }
    for frag in frags.iter() {
        let edits = frag.as_array().unwrap();
        // open rolls over: the previous live file becomes a numbered fragment, the new one starts with the roll-up
        let mut m = mani::Manifest::open(mani_opts(), &mdir).map_err(|e| format!("{e:?}"))?;
        if names(&edits[0]["add"]) != listed { return Err(format!("roll-up of the model {:?} is not the fold {:?}", edits[0]["add"], listed)); }
        for e in edits.iter().skip(1) { apply_edit(&mut m, u, &mut listed, &names(&e["rm"]), &names(&e["add"]))?; }
    }
    // keep as many numbered fragments as the model has besides the live one
    let nums = numbered(&mdir);
    let keep = frags.len() - 1;
    for (_, p) in nums.iter().take(nums.len().saturating_sub(keep)) { std::fs::remove_file(p).unwrap(); }
    // files
    for f in names(&img["sst"]) { std::fs::copy(&u.proto[&f], lsmtk::SST_FILE(&root, u.setsum[&f])).unwrap(); }
    for f in names(&img["trash"]) { std::fs::copy(&u.proto[&f], lsmtk::TRASH_SST(&root, u.setsum[&f])).unwrap(); }
    for (i, f) in names(&img["logs"]).iter().enumerate() {
        let idx = u.ids.iter().position(|x| x == f).unwrap();
        let (k, ts, v) = entry_of(idx, f);
        let mut lb = LogBuilder::new(LogOptions::default(), lsmtk::LOG_FILE(&root, 100 + i as u64)).map_err(|e| format!("{e:?}"))?;
        let mut wb = WriteBatch::default();
        wb.put(&k, ts, &v).map_err(|e| format!("{e:?}"))?;
        lb.append(&wb).map_err(|e| format!("{e:?}"))?;
        lb.fsync().map_err(|e| format!("{e:?}"))?;
    }
    // the real open
    let want_listed: BTreeSet<String> = names(&img["listed"]).iter().map(|f| u.setsum[f].hexdigest()).collect();
    let want_sst: BTreeSet<String> = names(&img["sst2"]).iter().map(|f| u.setsum[f].hexdigest()).collect();
    let want_trash: BTreeSet<String> = names(&img["trash2"]).iter().map(|f| u.setsum[f].hexdigest()).collect();
    let kvs = match lsmtk::KeyValueStore::open(opts(&root)) {
        Ok(k) => k,
        Err(e) => return Ok(Some(json!({"what": "open failed", "error": format!("{e:?}").chars().take(400).collect::<String>()}))),
    };
    let mut unreadable = vec![];
    for f in names(&img["listed"]) {
        let idx = u.ids.iter().position(|x| *x == f).unwrap();
        let (k, _, v) = entry_of(idx, &f);
        let mut tomb = false;
        match kvs.load(&k, &mut tomb) {
            Ok(Some(got)) if got == v => {}
            other => unreadable.push(json!({"file": f, "got": format!("{other:?}").chars().take(200).collect::<String>()})),
        }
    }
    drop(kvs);
    let got_listed = listed_on_disk(&root)?;
    let got_sst = dir_ssts(&lsmtk::SST_ROOT(&root));
    let got_trash = dir_ssts(&lsmtk::TRASH_ROOT(&root));
    let logs_left: Vec<String> = std::fs::read_dir(&root).unwrap().flatten()
        .filter(|e| e.file_name().to_string_lossy().starts_with("log.") && e.metadata().map(|m| m.len() > 0).unwrap_or(false))
        .map(|e| e.file_name().to_string_lossy().to_string()).collect();
    if got_listed != want_listed || got_sst != want_sst || got_trash != want_trash || !unreadable.is_empty() || !logs_left.is_empty() {
        let back = |s: &BTreeSet<String>| -> Vec<String> { s.iter().map(|h| u.ids.iter().find(|f| u.setsum[*f].hexdigest() == *h).cloned().unwrap_or(h.clone())).collect() };
        return Ok(Some(json!({"what": "the open left something else than the model's Reopen",
            "listed": {"model": back(&want_listed), "store": back(&got_listed)}, "sst": {"model": back(&want_sst), "store": back(&got_sst)},
            "trash": {"model": back(&want_trash), "store": back(&got_trash)}, "unreadable": unreadable, "logs_left": logs_left})));
    }
    Ok(None)
}

pub fn main(args: &[String]) -> ! {
    // vh cleanup-replay <tlc output> <scratch dir> [max images [modulus remainder]]
    let (recs, bad) = read_replay_lines(&args[0], "IMG");
    if bad > 0 { tool_error(&format!("{bad} IMG lines did not parse")); }
    let scratch = PathBuf::from(&args[1]);
    std::fs::create_dir_all(&scratch).unwrap();
    let max: usize = args.get(2).and_then(|s| s.parse().ok()).filter(|m| *m > 0).unwrap_or(usize::MAX);
    let modulus: usize = args.get(3).and_then(|s| s.parse().ok()).unwrap_or(1);
    let remainder: usize = args.get(4).and_then(|s| s.parse().ok()).unwrap_or(0);
    let mut seen = BTreeSet::new();
    let mut ids = BTreeSet::new();
    for r in &recs {
        for part in ["sst", "trash", "logs", "listed"] { ids.extend(names(&r[part])); }
        for frag in r["frags"].as_array().unwrap() { for e in frag.as_array().unwrap() { ids.extend(names(&e["rm"])); ids.extend(names(&e["add"])); } }
    }
    let u = universe(&scratch, &ids);
    lsmtk::verif::set_single_step(true);
    let mut rep = Report::default();
    for r in recs.iter() {
        let key = json!([r["frags"], r["sst"], r["trash"], r["logs"]]).to_string();
        if !seen.insert(key) { continue; }
        if (seen.len() - 1) % modulus != remainder { continue; }
        if rep.evaluations as usize >= max { break; }
        rep.evaluations += 1;
        inflight(r);
        match std::panic::catch_unwind(std::panic::AssertUnwindSafe(|| materialise_and_reopen(r, &scratch, &u))) {
            Ok(Ok(None)) => {}
            Ok(Ok(Some(m))) => { if rep.violations.len() < 10 { rep.violation(json!({"image": r, "mismatch": m})); } }
            Ok(Err(e)) => tool_error(&format!("materialising an image failed: {e}")),
            Err(_) => { if rep.violations.len() < 10 { rep.violation(json!({"image": r, "mismatch": {"what": "panic"}})); } }
        }
        rep.steps += 1;
    }
    rep.distinct = rep.evaluations;
    if std::env::var("VH_KEEP_DB").is_err() { let _ = std::fs::remove_dir_all(&scratch); }
    rep.finish()
}
