//! C12: replay Log.tla layouts (real scale) against sst::log::{LogBuilder, LogIterator}.
use crate::common::*;
use serde_json::{Value, json};
use sst::Builder;
use sst::log::{LogBuilder, LogIterator, LogOptions, WriteBatch};
use std::io::Cursor;
use std::panic::{AssertUnwindSafe, catch_unwind};

/// A batch whose encoded buffer is exactly `size` bytes: full 30 KiB entries, then one sized to fit.
/// Returns the batch and its number of entries.  Every entry carries timestamp id + 1.
fn batch_of(size: usize, id: u64) -> (WriteBatch, u64) {
    batch_of_with(size, id, size >= 200)
}

fn batch_of_with(size: usize, id: u64, lead: bool) -> (WriteBatch, u64) {
    const CHUNK: usize = 30000;
    let mut wb = WriteBatch::default();
    let mut n = 0u64;
    let fill = vec![b'a' + (id % 26) as u8; CHUNK];
    if lead {
        // a tiny leading entry, so that even a short first fragment of a split batch holds a whole entry
        wb.put(b"k", id + 1, b"t").unwrap();
        n += 1;
    }
    while size.saturating_sub(wb.approximate_size()) > 2 * CHUNK {
        wb.put(b"key", id + 1, &fill).unwrap();
        n += 1;
    }
    let base = wb.clone();
    let remaining = size - base.approximate_size();
    // split the remainder over one or two entries so that each value stays under the limit
    let first_len = if remaining > CHUNK + 64 { remaining / 2 } else { 0 };
    // a length prefix that grows by a byte leaves one size unreachable with a given key: try a few key lengths
    for last_key in [&b"key"[..], &b"keyy"[..], &b"ke"[..], &b"keyyy"[..]] {
        let mut vlen = (remaining - first_len).saturating_sub(24);
        for _ in 0..64 {
            let mut wb = base.clone();
            let mut k = n;
            if first_len > 0 {
                wb.put(b"key", id + 1, &fill[..first_len - 24]).unwrap();
                k += 1;
            }
            wb.put(last_key, id + 1, &vec![b'z'; vlen]).unwrap();
            k += 1;
            let got = wb.approximate_size();
            if got == size {
                return (wb, k);
            }
            if got > size {
                if got - size > vlen { break; }
                vlen -= got - size;
            } else {
                vlen += size - got;
            }
        }
    }
    if !lead && size >= 60 {
        // one entry cannot have this size (its length prefix grows by a byte just there): two entries can
        return batch_of_with(size, id, true);
    }
    tool_error(&format!("cannot build a batch of {size} bytes"));
}

fn read_all<R: std::io::Read + std::io::Seek>(mut it: LogIterator<R>) -> (u64, &'static str, Vec<u64>) {
    let mut n = 0u64;
    let mut ids = vec![];
    loop {
        match it.next() {
            Ok(Some(kvr)) => {
                n += 1;
                ids.push(kvr.timestamp);
            }
            Ok(None) => return (n, "end", ids),
            Err(_) => return (n, "error", ids),
        }
    }
}

pub fn main(args: &[String]) -> ! {
    // vh log-replay <tlc output> <scratch dir>
    let (recs, bad) = read_replay_lines(&args[0], "LOG");
    if bad > 0 {
        tool_error(&format!("{bad} LOG lines did not parse"));
    }
    let scratch = std::path::PathBuf::from(&args[1]);
    std::fs::create_dir_all(&scratch).ok();
    if std::env::var("VH_PANICS").is_err() {
        std::panic::set_hook(Box::new(|_| {}));
    }
    let mut rep = Report::default();
    for (ci, rec) in recs.iter().enumerate() {
        rep.evaluations += 1;
        inflight(rec);
        let sizes: Vec<usize> = rec["sizes"].as_array().unwrap().iter().map(|v| v.as_u64().unwrap() as usize).collect();
        let path = scratch.join(format!("log{ci}"));
        let _ = std::fs::remove_file(&path);
        let mut lb = LogBuilder::new(LogOptions::default(), &path).unwrap();
        let mut bad_case = None;
        let mut cum = vec![0u64];
        for (i, s) in sizes.iter().enumerate() {
            let (wb, k) = batch_of(*s, i as u64);
            cum.push(cum[cum.len() - 1] + k);
            if let Err(e) = lb.append(&wb) {
                bad_case = Some(json!({"append": i, "err": format!("{e:?}").chars().take(120).collect::<String>()}));
                break;
            }
            rep.steps += 1;
            let want = rec["lengths"][i].as_u64().unwrap();
            if lb.approximate_size() as u64 != want {
                bad_case = Some(json!({"after_append": i, "file_length": lb.approximate_size(), "expected": want}));
                break;
            }
        }
        if bad_case.is_none() {
            lb.fsync().unwrap();
            drop(lb);
            let bytes = std::fs::read(&path).unwrap();
            let want_total = rec["lengths"].as_array().unwrap().last().map(|v| v.as_u64().unwrap()).unwrap_or(0);
            if bytes.len() as u64 != want_total {
                bad_case = Some(json!({"file_length": bytes.len(), "expected": want_total}));
            }
            // frame headers where the specification puts them: the length byte of every frame
            for fr in rec["frames"].as_array().unwrap() {
                let (kind, off, hdr) = (fr[0].as_str().unwrap(), fr[1].as_u64().unwrap() as usize, fr[2].as_u64().unwrap() as usize);
                if bad_case.is_some() || off >= bytes.len() {
                    break;
                }
                let b = bytes[off] as usize;
                let ok = if kind == "pad" { b == 0 && bytes[off..off + fr[3].as_u64().unwrap() as usize].iter().all(|x| *x == 0) } else { b + 1 == hdr };
                if !ok {
                    bad_case = Some(json!({"frame": fr, "byte_at_off": b}));
                }
            }
            for rd in rec["reads"].as_array().unwrap() {
                if bad_case.is_some() {
                    break;
                }
                let cut = rd[0].as_u64().unwrap() as usize;
                let want_n = cum[rd[1].as_u64().unwrap() as usize];
                let want_end = rd[2].as_str().unwrap();
                let slice = &bytes[..cut.min(bytes.len())];
                let r = catch_unwind(AssertUnwindSafe(|| {
                    let it = LogIterator::from_reader(LogOptions::default(), Cursor::new(slice)).unwrap();
                    read_all(it)
                }));
                rep.steps += 1;
                match r {
                    Ok((n, end, ids)) => {
                        // entry j belongs to the batch whose cumulative range holds j
                        let in_order = ids.iter().enumerate().all(|(j, t)| {
                            let b = cum.iter().position(|c| *c > j as u64).unwrap_or(0);
                            *t == b as u64
                        });
                        if n != want_n || end != want_end || !in_order {
                            bad_case = Some(json!({"cut": cut, "expected": [want_n, want_end], "observed": [n, end], "in_order": in_order}));
                        }
                    }
                    Err(_) => bad_case = Some(json!({"cut": cut, "observed": "panic"})),
                }
            }
            // the replay entry points used by KeyValueStore::open must fail cleanly on a torn file
            let reads = rec["reads"].as_array().unwrap();
            for rd in reads.iter().filter(|r| r[2] == "error").take(3) {
                if bad_case.is_some() {
                    break;
                }
                let cut = rd[0].as_u64().unwrap() as usize;
                let p2 = scratch.join(format!("log{ci}.cut"));
                std::fs::write(&p2, &bytes[..cut.min(bytes.len())]).unwrap();
                let r = catch_unwind(AssertUnwindSafe(|| sst::log::log_to_setsum(LogOptions::default(), &p2)));
                rep.steps += 1;
                match r {
                    Ok(Err(_)) => {}
                    Ok(Ok(_)) => bad_case = Some(json!({"cut": cut, "log_to_setsum": "ok on a torn file the iterator rejects"})),
                    Err(_) => bad_case = Some(json!({"cut": cut, "log_to_setsum": "panic"})),
                }
                let _ = std::fs::remove_file(&p2);
            }
        }
        let _ = std::fs::remove_file(&path);
        if let Some(b) = bad_case {
            rep.violation(json!({"sizes": sizes, "mismatch": b}));
        }
        if ci % 17 == 0 {
            rep.sample(json!({"sizes": sizes, "frames": rec["frames"], "reads_checked": rec["reads"].as_array().unwrap().len()}));
        }
    }
    rep.distinct = rep.evaluations;
    rep.finish()
}
