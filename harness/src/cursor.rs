//! C11 (and the cursor half of C03): replay TLC behaviours of MC_Cursor against the real cursors.
use crate::common::*;
use serde_json::{Value, json};
use sst::bounds_cursor::BoundsCursor;
use sst::concat_cursor::ConcatenatingCursor;
use sst::lazy_cursor::LazyCursor;
use sst::merging_cursor::MergingCursor;
use sst::pruning_cursor::PruningCursor;
use sst::reference::ReferenceBuilder;
use sst::{Builder, Cursor, Sst, SstBuilder, SstOptions};
use std::ops::Bound;
use std::panic::{AssertUnwindSafe, catch_unwind};
use std::path::PathBuf;

pub struct Ctx {
    pub dir: PathBuf,
    pub counter: u64,
    pub cache: std::collections::HashMap<Vec<(i64, i64, i64)>, PathBuf>,
    /// build "vec" leaves as real SSTs instead of reference tables
    pub sst_leaves: bool,
    /// build "vec" leaves as blocks with these restart intervals (bytes, pairs)
    pub block_leaves: Option<(u32, u32)>,
    /// options for SST leaves (restart intervals)
    pub sst_restarts: Option<(u32, u32)>,
}

fn entries_of(v: &Value) -> Vec<(i64, i64, i64)> {
    v.as_array()
        .unwrap()
        .iter()
        .map(|e| (e["k"].as_i64().unwrap(), e["ts"].as_i64().unwrap(), e["v"].as_i64().unwrap()))
        .collect()
}

fn bound_of(v: &Value) -> Bound<Vec<u8>> {
    let k = key_bytes(v["k"].as_i64().unwrap());
    match v["kind"].as_str().unwrap() {
        "U" => Bound::Unbounded,
        "I" => Bound::Included(k),
        "E" => Bound::Excluded(k),
        x => tool_error(&format!("bound kind {x}")),
    }
}

pub fn sst_options(ctx: &Ctx) -> SstOptions {
    let mut o = SstOptions::default().target_block_size(4096);
    if let Some((b, p)) = ctx.sst_restarts {
        o = o.block(sst::block::BlockBuilderOptions::default().bytes_restart_interval(b).key_value_pairs_restart_interval(p));
    }
    o
}

pub fn build_block(ctx: &Ctx, entries: &[(i64, i64, i64)]) -> sst::block::Block {
    let (b, p) = ctx.block_leaves.unwrap_or((1024, 16));
    let mut bb = sst::block::BlockBuilder::new(sst::block::BlockBuilderOptions::default().bytes_restart_interval(b).key_value_pairs_restart_interval(p));
    for (k, ts, v) in entries {
        if *v == 0 {
            bb.del(&key_bytes(*k), *ts as u64).unwrap();
        } else {
            bb.put(&key_bytes(*k), *ts as u64, &value_bytes(*k, *ts)).unwrap();
        }
    }
    bb.seal().unwrap()
}

fn build_sst(ctx: &mut Ctx, entries: &[(i64, i64, i64)]) -> PathBuf {
    if let Some(p) = ctx.cache.get(entries) {
        return p.clone();
    }
    ctx.counter += 1;
    let path = ctx.dir.join(format!("t{}.sst", ctx.counter));
    let mut b = SstBuilder::new(sst_options(ctx), &path).unwrap();
    for (k, ts, v) in entries {
        if *v == 0 {
            b.del(&key_bytes(*k), *ts as u64).unwrap();
        } else {
            b.put(&key_bytes(*k), *ts as u64, &value_bytes(*k, *ts)).unwrap();
        }
    }
    b.seal().unwrap();
    ctx.cache.insert(entries.to_vec(), path.clone());
    path
}

pub fn build(ctx: &mut Ctx, x: &Value) -> Box<dyn Cursor> {
    match x["op"].as_str().unwrap() {
        "vec" => {
            let entries = entries_of(&x["s"]);
            if ctx.block_leaves.is_some() {
                return Box::new(build_block(ctx, &entries).cursor());
            }
            if ctx.sst_leaves && !entries.is_empty() {
                let path = build_sst(ctx, &entries);
                let sst = Sst::<sst::file_manager::FileHandle>::new(SstOptions::default(), &path).unwrap();
                Box::new(sst.cursor())
            } else {
                let mut b = ReferenceBuilder::default();
                for (k, ts, v) in &entries {
                    if *v == 0 {
                        b.del(&key_bytes(*k), *ts as u64).unwrap();
                    } else {
                        b.put(&key_bytes(*k), *ts as u64, &value_bytes(*k, *ts)).unwrap();
                    }
                }
                Box::new(b.seal().unwrap().cursor())
            }
        }
        "lazy" => {
            let entries = entries_of(&x["s"]);
            if entries.is_empty() {
                // an SST cannot be empty; the model's empty lazy table has no implementation counterpart
                return Box::new(ReferenceBuilder::default().seal().unwrap().cursor());
            }
            let path = build_sst(ctx, &entries);
            Box::new(LazyCursor::new(move || Ok(Sst::<sst::file_manager::FileHandle>::new(SstOptions::default(), &path)?.cursor())))
        }
        "merge" => {
            let kids: Vec<Box<dyn Cursor>> = x["kids"].as_array().unwrap().iter().map(|k| build(ctx, k)).collect();
            Box::new(MergingCursor::new(kids).unwrap())
        }
        "concat" => {
            let kids: Vec<Box<dyn Cursor>> = x["kids"].as_array().unwrap().iter().map(|k| build(ctx, k)).collect();
            Box::new(ConcatenatingCursor::new(kids).unwrap())
        }
        "prune" => {
            let c = build(ctx, &x["c"]);
            Box::new(PruningCursor::new(c, x["ts"].as_u64().unwrap()).unwrap())
        }
        "bounds" => {
            let c = build(ctx, &x["c"]);
            Box::new(BoundsCursor::new(c, &bound_of(&x["lo"]), &bound_of(&x["hi"])).unwrap())
        }
        o => tool_error(&format!("unknown cursor op {o}")),
    }
}

/// Observation: [k, ts, v] with v = 0 for tombstone, 1 for the expected value bytes, -2 for wrong
/// value bytes; [0,0,0] when not positioned; [-1,0,0] for an Err return; [-9,0,0] for a panic.
pub fn observe(c: &dyn Cursor) -> [i64; 3] {
    match c.key() {
        None => {
            if c.value().is_some() {
                [-3, 0, 0]
            } else {
                [0, 0, 0]
            }
        }
        Some(kr) => {
            let k = key_of_bytes(kr.key);
            let ts = kr.timestamp as i64;
            let v = match c.value() {
                None => 0,
                Some(v) => {
                    if v == value_bytes(k, ts).as_slice() {
                        1
                    } else {
                        -2
                    }
                }
            };
            [k, ts, v]
        }
    }
}

pub fn apply(c: &mut dyn Cursor, op: &Value) -> Result<(), String> {
    let name = op[0].as_str().unwrap();
    let r = match name {
        "first" => c.seek_to_first(),
        "last" => c.seek_to_last(),
        "next" => c.next(),
        "prev" => c.prev(),
        "seek" => c.seek(&key_bytes(op[1].as_i64().unwrap())),
        x => tool_error(&format!("unknown cursor call {x}")),
    };
    r.map_err(|e| format!("{e:?}"))
}

fn code(o: [i64; 3]) -> i64 {
    if o[0] < 0 { o[0] } else { o[0] * 100 + o[1] * 10 + o[2] }
}

fn step(c: &mut dyn Cursor, op: &Value) -> i64 {
    match apply(c, op) {
        Ok(()) => code(observe(c)),
        Err(_) => -1,
    }
}

/// Replay one REPLAY record: the program h, then every extension by one and by two calls.
/// Returns (steps, Option<mismatch description>, deviation_seen).
fn replay_one(ctx: &mut Ctx, rec: &Value) -> (u64, Option<Value>, bool) {
    let mut steps = 0u64;
    let mut dev_seen = false;
    let h = rec["h"].as_array().unwrap();
    let ops = rec["ops"].as_array().unwrap();
    let exts = rec["n"].as_array().unwrap();
    let nops = ops.len();
    // run 0: the program; run 1 + i*nops + j: program, ops[i], ops[j]
    let n_runs = 1 + nops * nops;
    for run in 0..n_runs {
        let r = catch_unwind(AssertUnwindSafe(|| -> Option<Value> {
            let mut c = build(ctx, &rec["x"]);
            let mut trace = vec![];
            let mut cmp = |obs: i64, e: i64, m: i64, trace: &Vec<Value>, at: usize| -> Option<Value> {
                if obs != e {
                    if obs == m {
                        dev_seen = true;
                    } else {
                        return Some(json!({"at": at, "expected": e, "model_as_coded": m, "observed": obs, "trace": trace}));
                    }
                }
                None
            };
            for (i, st) in h.iter().enumerate() {
                let obs = step(c.as_mut(), &st[0]);
                trace.push(json!([st[0], obs]));
                steps += 1;
                if run == 0 {
                    if let Some(v) = cmp(obs, st[1].as_i64().unwrap(), st[2].as_i64().unwrap(), &trace, i) {
                        return Some(v);
                    }
                }
            }
            if run > 0 {
                let i = (run - 1) / nops;
                let j = (run - 1) % nops;
                let x = &exts[i];
                let obs = step(c.as_mut(), &ops[i]);
                steps += 1;
                trace.push(json!([ops[i], obs]));
                if let Some(v) = cmp(obs, x[0].as_i64().unwrap(), x[1].as_i64().unwrap(), &trace, h.len()) {
                    return Some(v);
                }
                let obs = step(c.as_mut(), &ops[j]);
                steps += 1;
                trace.push(json!([ops[j], obs]));
                if let Some(v) = cmp(obs, x[2][j].as_i64().unwrap(), x[3][j].as_i64().unwrap(), &trace, h.len() + 1) {
                    return Some(v);
                }
            }
            None
        }));
        match r {
            Ok(None) => {}
            Ok(Some(v)) => return (steps, Some(v), dev_seen),
            Err(p) => {
                let msg = if let Some(s) = p.downcast_ref::<String>() {
                    s.clone()
                } else if let Some(s) = p.downcast_ref::<&str>() {
                    s.to_string()
                } else {
                    "panic".to_string()
                };
                return (steps, Some(json!({"panic": msg, "run": run})), dev_seen);
            }
        }
    }
    (steps, None, dev_seen)
}

pub fn main(args: &[String]) -> ! {
    // vh cursor-replay <tlc-output> <scratch-dir> <replay-out-dir> <property> [--sst-leaves] [--stride n --offset o]
    let input = &args[0];
    let scratch = PathBuf::from(&args[1]);
    let outdir = PathBuf::from(&args[2]);
    let prop = &args[3];
    let sst_leaves = args.iter().any(|a| a == "--sst-leaves");
    let pair_after = |flag: &str| -> Option<(u32, u32)> {
        args.iter().position(|a| a == flag).map(|i| {
            let mut it = args[i + 1].split(',');
            (it.next().unwrap().parse().unwrap(), it.next().unwrap().parse().unwrap())
        })
    };
    let block_leaves = pair_after("--block-leaves");
    let sst_restarts = pair_after("--sst-restarts");
    std::fs::create_dir_all(&scratch).ok();
    std::fs::create_dir_all(&outdir).ok();
    let (recs, bad) = read_replay_lines(input, "REPLAY");
    if bad > 0 {
        tool_error(&format!("{bad} REPLAY lines did not parse"));
    }
    std::panic::set_hook(Box::new(|_| {}));
    let mut ctx = Ctx { dir: scratch.clone(), counter: 0, sst_leaves, cache: Default::default(), block_leaves, sst_restarts };
    let mut rep = Report::default();
    let mut distinct = std::collections::HashSet::new();
    for rec in &recs {
        rep.evaluations += 1;
        inflight(rec);
        let (steps, mism, dev) = replay_one(&mut ctx, rec);
        rep.steps += steps;
        distinct.insert(rec["x"].to_string());
        if dev {
            rep.known("model_as_coded_differs_from_property");
        }
        if let Some(m) = mism {
            let name = format!("{}-{:016x}.json", prop, fxhash(&rec.to_string()));
            let path = outdir.join(name);
            let body = json!({"property": prop, "kind": "cursor-replay", "record": rec, "mismatch": m});
            std::fs::write(&path, serde_json::to_string_pretty(&body).unwrap()).ok();
            rep.violation(json!({"replay": path.to_string_lossy(), "mismatch": m, "x": rec["x"]}));
        }
        if rep.evaluations % 997 == 1 {
            rep.sample(rec.clone());
        }
    }
    let (tables, badt) = read_replay_lines(input, "TABLE");
    if badt > 0 {
        tool_error(&format!("{badt} TABLE lines did not parse"));
    }
    for t in &tables {
        rep.evaluations += 1;
        if let Some(m) = crate::table::check_table(&mut ctx, t, &mut rep.steps) {
            let name = format!("{}-table-{:016x}.json", prop, fxhash(&t.to_string()));
            let path = outdir.join(name);
            let body = json!({"property": prop, "kind": "table-facts", "table": t, "mismatch": m});
            std::fs::write(&path, serde_json::to_string_pretty(&body).unwrap()).ok();
            rep.violation(json!({"replay": path.to_string_lossy(), "mismatch": m, "x": t["s"]}));
        }
    }
    rep.distinct = distinct.len() as u64;
    for e in std::fs::read_dir(&scratch).unwrap().flatten() {
        std::fs::remove_file(e.path()).ok();
    }
    rep.finish()
}

pub fn fxhash(s: &str) -> u64 {
    let mut h: u64 = 0xcbf29ce484222325;
    for b in s.bytes() {
        h ^= b as u64;
        h = h.wrapping_mul(0x100000001b3);
    }
    h
}
