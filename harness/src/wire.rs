//! C15: replay Wire.tla's encodings against prototk / buffertk; round trips; unknown fields; hostile input.
use crate::common::*;
use buffertk::{Packable, Unpackable, stack_pack, v64};
use prototk_derive::Message;
use serde_json::{Value, json};
use std::panic::{AssertUnwindSafe, catch_unwind};

#[derive(Clone, Debug, Default, Message, PartialEq)]
pub struct Leaf {
    #[prototk(1, uint64)]
    a: u64,
    #[prototk(2, string)]
    s: String,
    #[prototk(3, sint32)]
    z: i32,
}

#[derive(Clone, Debug, Message, PartialEq)]
pub enum Choice {
    #[prototk(1, sint64)]
    One(i64),
    #[prototk(2, string)]
    Text(String),
    #[prototk(3, message)]
    Sub(Leaf),
    #[prototk(4, message)]
    Named {
        #[prototk(1, uint64)]
        p: u64,
        #[prototk(2, bytes)]
        q: Vec<u8>,
    },
    #[prototk(5, message)]
    Nothing,
}

impl Default for Choice {
    fn default() -> Self {
        Choice::One(0)
    }
}

#[derive(Clone, Debug, Message, PartialEq)]
pub struct All {
    #[prototk(1, int32)]
    i32_: i32,
    #[prototk(2, int64)]
    i64_: i64,
    #[prototk(3, uint32)]
    u32_: u32,
    #[prototk(4, uint64)]
    u64_: u64,
    #[prototk(5, sint32)]
    s32: i32,
    #[prototk(6, sint64)]
    s64: i64,
    #[prototk(7, Bool)]
    b: bool,
    #[prototk(8, fixed32)]
    fx32: u32,
    #[prototk(9, fixed64)]
    fx64: u64,
    #[prototk(10, sfixed32)]
    sfx32: i32,
    #[prototk(11, sfixed64)]
    sfx64: i64,
    #[prototk(12, float)]
    fl: f32,
    #[prototk(13, double)]
    db: f64,
    #[prototk(14, bytes)]
    by: Vec<u8>,
    #[prototk(15, bytes16)]
    b16: [u8; 16],
    #[prototk(16, bytes32)]
    b32: [u8; 32],
    #[prototk(17, string)]
    st: String,
    #[prototk(18, message)]
    leaf: Leaf,
    #[prototk(19, uint64)]
    ou: Option<u64>,
    #[prototk(20, string)]
    os: Option<String>,
    #[prototk(21, message)]
    ol: Option<Leaf>,
    #[prototk(22, uint64)]
    vu: Vec<u64>,
    #[prototk(23, string)]
    vs: Vec<String>,
    #[prototk(24, message)]
    vl: Vec<Leaf>,
    #[prototk(25, message)]
    ch: Choice,
    #[prototk(26, message)]
    res: Result<Leaf, prototk::SError>,
    #[prototk(300, sint32)]
    big: i32,
    #[prototk(134217727, uint64)]
    huge: u64,
}

impl Default for All {
    fn default() -> Self {
        All { i32_: 0, i64_: 0, u32_: 0, u64_: 0, s32: 0, s64: 0, b: false, fx32: 0, fx64: 0, sfx32: 0, sfx64: 0, fl: 0.0, db: 0.0, by: vec![], b16: [0; 16], b32: [0; 32],
              st: String::new(), leaf: Leaf::default(), ou: None, os: None, ol: None, vu: vec![], vs: vec![], vl: vec![], ch: Choice::default(), res: Ok(Leaf::default()), big: 0, huge: 0 }
    }
}

fn bytes_of(v: &Value) -> Vec<u8> {
    v.as_array().unwrap().iter().map(|b| b.as_u64().unwrap() as u8).collect()
}

fn string_of(v: &Value) -> String {
    String::from_utf8(bytes_of(v)).unwrap()
}

fn leaf_of(v: &Value) -> Leaf {
    Leaf { a: v["a"].as_u64().unwrap(), s: string_of(&v["s"]), z: v["z"].as_i64().unwrap() as i32 }
}

fn all_of(v: &Value) -> All {
    let opt = |x: &Value| if x.is_null() || x == "none" { None } else { Some(x.clone()) };
    All {
        i32_: v["i32"].as_i64().unwrap() as i32,
        i64_: v["i64"].as_i64().unwrap(),
        u32_: v["u32"].as_u64().unwrap() as u32,
        u64_: v["u64"].as_u64().unwrap(),
        s32: v["s32"].as_i64().unwrap() as i32,
        s64: v["s64"].as_i64().unwrap(),
        b: v["b"].as_u64().unwrap() != 0,
        fx32: v["fx32"].as_u64().unwrap() as u32,
        fx64: v["fx64"].as_u64().unwrap(),
        sfx32: v["sfx32"].as_i64().unwrap() as i32,
        sfx64: v["sfx64"].as_i64().unwrap(),
        fl: f32::from_bits(v["fl"].as_u64().unwrap() as u32),
        db: f64::from_bits(v["db"].as_u64().unwrap()),
        by: bytes_of(&v["by"]),
        b16: bytes_of(&v["b16"]).try_into().unwrap(),
        b32: bytes_of(&v["b32"]).try_into().unwrap(),
        st: string_of(&v["st"]),
        leaf: leaf_of(&v["leaf"]),
        ou: opt(&v["ou"]).map(|x| x.as_u64().unwrap()),
        os: opt(&v["os"]).map(|x| string_of(&x)),
        ol: opt(&v["ol"]).map(|x| leaf_of(&x)),
        vu: v["vu"].as_array().unwrap().iter().map(|x| x.as_u64().unwrap()).collect(),
        vs: v["vs"].as_array().unwrap().iter().map(string_of).collect(),
        vl: v["vl"].as_array().unwrap().iter().map(leaf_of).collect(),
        ch: match v["ch"]["k"].as_str().unwrap() {
            "One" => Choice::One(v["ch"]["v"].as_i64().unwrap()),
            "Text" => Choice::Text(string_of(&v["ch"]["v"])),
            "Sub" => Choice::Sub(leaf_of(&v["ch"]["v"])),
            "Named" => Choice::Named { p: v["ch"]["v"]["p"].as_u64().unwrap(), q: bytes_of(&v["ch"]["v"]["q"]) },
            _ => Choice::Nothing,
        },
        res: Ok(leaf_of(&v["res"]["v"])),
        big: v["big"].as_i64().unwrap() as i32,
        huge: v["huge"].as_u64().unwrap(),
    }
}

/// Equality that treats floats by bit pattern (NaN payloads included).
fn same(a: &All, b: &All) -> bool {
    let (mut x, mut y) = (a.clone(), b.clone());
    let fb = a.fl.to_bits() == b.fl.to_bits() && a.db.to_bits() == b.db.to_bits();
    x.fl = 0.0; y.fl = 0.0; x.db = 0.0; y.db = 0.0;
    fb && x == y
}

fn decode(buf: &[u8]) -> Result<Result<All, String>, ()> {
    catch_unwind(AssertUnwindSafe(|| <All as Unpackable>::unpack(buf).map(|x| x.0).map_err(|e| format!("{e:?}").chars().take(120).collect()))).map_err(|_| ())
}

pub fn main(args: &[String]) -> ! {
    // vh wire-replay <tlc output> <values.ndjson>
    let (recs, bad) = read_replay_lines(&args[0], "WIRE");
    if bad > 0 { tool_error(&format!("{bad} WIRE lines did not parse")); }
    let values: std::collections::HashMap<u64, Value> = std::fs::read_to_string(&args[1]).unwrap().lines().filter(|l| !l.trim().is_empty())
        .map(|l| { let v: Value = serde_json::from_str(l).unwrap(); (v["id"].as_u64().unwrap(), v) }).collect();
    if std::env::var("VH_PANICS").is_err() { std::panic::set_hook(Box::new(|_| {})); }
    let mut rep = Report::default();
    let mut x = 0x9E3779B97F4A7C15u64;
    for rec in &recs {
        rep.evaluations += 1;
        inflight(rec);
        if rec.get("varint").is_some() {
            // a varint byte pattern and the specification's reading of it: ["ok", bits, consumed] or ["error"]
            let bytes = bytes_of(&rec["varint"]);
            let want = if rec["dec"][0] == "ok" {
                Some((rec["dec"][1].as_array().unwrap().iter().fold(0u64, |a, b| (a << 1) | b.as_u64().unwrap()), rec["dec"][2].as_u64().unwrap() as usize))
            } else { None };
            // the short-buffer path (exact length) and the unrolled path (at least ten bytes available)
            let mut padded = bytes.clone();
            while padded.len() < 12 { padded.push(0x80); }
            for (path, buf) in [("slow", &bytes), ("fast", &padded)] {
                if path == "slow" && bytes.len() >= 10 { continue; }
                rep.steps += 1;
                let r = catch_unwind(AssertUnwindSafe(|| v64::unpack(buf).map(|(v, rest)| { let v: u64 = v.into(); (v, buf.len() - rest.len()) }).ok()));
                match r {
                    Err(_) => rep.violation(json!({"varint": bytes, "path": path, "panic": true})),
                    Ok(got) => {
                        // with padding of continuation bytes a pattern that ran off its end reads on into the padding: only
                        // patterns that end within themselves are comparable on the fast path
                        let comparable = path == "slow" || want.is_some() || bytes.len() >= 10;
                        if comparable && got != want {
                            rep.violation(json!({"varint": bytes, "path": path, "expected": rec["dec"], "observed": got.map(|g| json!([g.0, g.1]))}));
                        }
                    }
                }
            }
            continue;
        }
        let val = &values[&rec["id"].as_u64().unwrap()];
        let parts: Vec<Vec<u8>> = rec["parts"].as_array().unwrap().iter().map(bytes_of).collect();
        let want: Vec<u8> = parts.concat();
        let all = all_of(&val["all"]);
        rep.steps += 1;
        let packed = match catch_unwind(AssertUnwindSafe(|| { let p = stack_pack(&all); (p.pack_sz(), p.to_vec()) })) {
            Ok(p) => p,
            Err(_) => { rep.violation(json!({"id": val["id"], "all": val["all"], "pack": "panic"})); continue; }
        };
        if packed.0 != packed.1.len() {
            rep.violation(json!({"id": val["id"], "all": val["all"], "pack_sz": packed.0, "written": packed.1.len()}));
        }
        if packed.1 != want {
            let at = packed.1.iter().zip(want.iter()).position(|(a, b)| a != b).unwrap_or(packed.1.len().min(want.len()));
            rep.violation(json!({"id": val["id"], "all": val["all"], "first_difference_at": at, "expected_len": want.len(), "observed_len": packed.1.len(),
                                 "expected": want[at.saturating_sub(4)..(at + 8).min(want.len())], "observed": packed.1[at.saturating_sub(4)..(at + 8).min(packed.1.len())]}));
            continue;
        }
        // the bytes decode to an equal value
        rep.steps += 1;
        match decode(&want) {
            Ok(Ok(got)) if same(&got, &all) => {}
            Ok(Ok(_)) => rep.violation(json!({"id": val["id"], "all": val["all"], "decode": "a different value"})),
            Ok(Err(e)) => rep.violation(json!({"id": val["id"], "all": val["all"], "decode": e})),
            Err(()) => rep.violation(json!({"id": val["id"], "all": val["all"], "decode": "panic"})),
        }
        // unknown fields of every wire type between any two fields: skipped, the rest undisturbed
        let unknowns: [&[u8]; 6] = [&[0xf8, 0x06, 0x96, 0x01], &[0xf9, 0x06, 1, 2, 3, 4, 5, 6, 7, 8], &[0xfa, 0x06, 3, 0x08, 0x01, 0xff], &[0xfd, 0x06, 9, 9, 9, 9],
                                    &[0xf8, 0x06, 0xff, 0xff, 0xff, 0xff, 0xff, 0xff, 0xff, 0xff, 0xff, 0x01], &[0xfa, 0x06, 0]];
        let mut bounds: Vec<usize> = vec![0];
        for p in &parts { bounds.push(bounds[bounds.len() - 1] + p.len()); }
        for (k, b) in bounds.iter().enumerate() {
            let u = unknowns[k % unknowns.len()];
            let mut inj = want[..*b].to_vec();
            inj.extend_from_slice(u);
            inj.extend_from_slice(&want[*b..]);
            rep.steps += 1;
            match decode(&inj) {
                Ok(Ok(got)) if same(&got, &all) => {}
                Ok(Ok(_)) => { rep.violation(json!({"id": val["id"], "all": val["all"], "unknown_field_at": b, "unknown": u, "decode": "a different value"})); break; }
                Ok(Err(e)) => { rep.violation(json!({"id": val["id"], "all": val["all"], "unknown_field_at": b, "unknown": u, "decode": e})); break; }
                Err(()) => { rep.violation(json!({"id": val["id"], "all": val["all"], "unknown_field_at": b, "unknown": u, "decode": "panic"})); break; }
            }
        }
        // over-long varints (the specification's non-canonical re-encodings): a value equal to the original, or an error
        let mut overlong: Vec<Vec<u8>> = vec![];
        for key in ["otag", "opay"] {
            for (j, alt) in rec[key].as_array().unwrap().iter().enumerate() {
                let alt = bytes_of(alt);
                if alt != parts[j] {
                    let mut m = parts.clone();
                    m[j] = alt;
                    overlong.push(m.concat());
                }
            }
        }
        for inp in overlong {
            rep.steps += 1;
            match decode(&inp) {
                Ok(Ok(got)) if same(&got, &all) => {}
                Ok(Err(_)) => {}
                Ok(Ok(_)) => { rep.violation(json!({"id": val["id"], "all": val["all"], "overlong_input": inp, "decode": "a different value"})); break; }
                Err(()) => { rep.violation(json!({"id": val["id"], "all": val["all"], "overlong_input": inp, "decode": "panic"})); break; }
            }
        }
        // hostile input: every truncation, bit flips and overwrites, random garbage; nested decoders too
        let mut inputs: Vec<Vec<u8>> = (0..want.len()).map(|n| want[..n].to_vec()).collect();
        for _ in 0..200 {
            x ^= x << 13; x ^= x >> 7; x ^= x << 17;
            let mut m = want.clone();
            let i = (x % m.len() as u64) as usize;
            match (x >> 32) % 4 { 0 => m[i] ^= 1 << ((x >> 40) % 8), 1 => m[i] = 0xff, 2 => m[i] = 0x80, _ => { m.insert(i, (x >> 48) as u8); } }
            inputs.push(m);
        }
        for _ in 0..40 {
            x ^= x << 13; x ^= x >> 7; x ^= x << 17;
            inputs.push((0..(x % 24) as usize).map(|k| (x >> (k % 8 * 7)) as u8 ^ k as u8).collect());
        }
        for inp in inputs {
            rep.steps += 1;
            let r = catch_unwind(AssertUnwindSafe(|| {
                let _ = <All as Unpackable>::unpack(&inp);
                let _ = <Leaf as Unpackable>::unpack(&inp);
                let _ = <Choice as Unpackable>::unpack(&inp);
                let mut err = None;
                let _ = prototk::FieldIterator::new(&inp, &mut err).count();
            }));
            if r.is_err() {
                rep.violation(json!({"id": val["id"], "all": val["all"], "hostile_input": inp, "decode": "panic"}));
                break;
            }
        }
        if rep.evaluations % 37 == 1 { rep.sample(json!({"id": val["id"], "len": want.len(), "bounds": bounds.len()})); }
    }
    rep.distinct = rep.evaluations;
    rep.finish()
}
