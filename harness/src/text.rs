//! C19: replay Text.tla's answers against scrunch's compressed document and bit vectors.
use crate::common::*;
use buffertk::Unpackable;
use scrunch::bit_vector::BitVector;
use scrunch::{Document, RecordOffset, TextOffset};
use serde_json::{Value, json};
use std::panic::{AssertUnwindSafe, catch_unwind};

fn seq_u32(v: &Value) -> Vec<u32> {
    v.as_array().unwrap().iter().map(|x| x.as_u64().unwrap() as u32).collect()
}

fn seq_usize(v: &Value) -> Vec<usize> {
    v.as_array().unwrap().iter().map(|x| x.as_u64().unwrap() as usize).collect()
}

fn check_doc<'a, D: Document + Unpackable<'a>>(name: &str, rec: &Value, buf: &'a mut Vec<u8>, steps: &mut u64) -> Option<Value>
where
    <D as Unpackable<'a>>::Error: std::fmt::Debug,
{
    let text = seq_u32(&rec["text"]);
    let starts = seq_usize(&rec["starts"]);
    buf.clear();
    {
        let mut builder = scrunch::builder::Builder::new(buf);
        if let Err(e) = D::construct(text.clone(), starts.clone(), &mut builder) {
            return Some(json!({"doc": name, "construct": format!("{e:?}")}));
        }
    }
    let buf: &'a Vec<u8> = buf;
    let doc = match D::unpack(buf) {
        Ok((d, _)) => d,
        Err(e) => return Some(json!({"doc": name, "parse": format!("{e:?}")})),
    };
    *steps += 1;
    if doc.len() != rec["len"].as_u64().unwrap() as usize || doc.records() != rec["records"].as_u64().unwrap() as usize {
        return Some(json!({"doc": name, "len": doc.len(), "records": doc.records(), "expected": [rec["len"], rec["records"]]}));
    }
    for q in rec["queries"].as_array().unwrap() {
        let needle = seq_u32(&q["needle"]);
        let want = seq_usize(&q["offsets"]);
        *steps += 1;
        let mut got: Vec<usize> = match doc.search(&needle) {
            Ok(it) => it.map(|o| o.0).collect(),
            Err(e) => return Some(json!({"doc": name, "needle": needle, "search": format!("{e:?}")})),
        };
        got.sort();
        if got != want {
            return Some(json!({"doc": name, "needle": needle, "expected_offsets": want, "observed_offsets": got}));
        }
        match doc.count(&needle) {
            Ok(c) if c == want.len() => {}
            other => return Some(json!({"doc": name, "needle": needle, "expected_count": want.len(), "observed_count": format!("{other:?}")})),
        }
    }
    for (off, want) in seq_usize(&rec["lookup"]).iter().enumerate() {
        *steps += 1;
        match doc.lookup(TextOffset(off)) {
            Ok(r) if r.0 == *want => {}
            other => return Some(json!({"doc": name, "lookup": off, "expected": want, "observed": format!("{other:?}")})),
        }
    }
    for (r, want) in rec["retrieve"].as_array().unwrap().iter().enumerate() {
        *steps += 1;
        match doc.retrieve(RecordOffset(r)) {
            Ok(t) if t == seq_u32(want) => {}
            other => return Some(json!({"doc": name, "retrieve": r, "expected": want, "observed": format!("{other:?}")})),
        }
        match doc.offset_of(RecordOffset(r)) {
            Ok(o) if o.0 == rec["offset_of"][r].as_u64().unwrap() as usize => {}
            other => return Some(json!({"doc": name, "offset_of": r, "expected": rec["offset_of"][r], "observed": format!("{other:?}")})),
        }
    }
    None
}

fn check_bits<B: BitVector>(name: &str, rec: &Value, steps: &mut u64) -> Option<Value> {
    let bits: Vec<bool> = rec["bits"].as_array().unwrap().iter().map(|b| b.as_u64().unwrap() == 1).collect();
    let mut buf = vec![];
    {
        let mut builder = scrunch::builder::Builder::new(&mut buf);
        if let Err(e) = B::construct(&bits, &mut builder) {
            return Some(json!({"bit_vector": name, "construct": format!("{e:?}")}));
        }
    }
    let bv = match B::parse(&buf) {
        Ok((b, _)) => b,
        Err(e) => return Some(json!({"bit_vector": name, "parse": format!("{e:?}")})),
    };
    if bv.len() != bits.len() {
        return Some(json!({"bit_vector": name, "len": bv.len(), "expected": bits.len()}));
    }
    for p in rec["probes"].as_array().unwrap() {
        let x = p["x"].as_u64().unwrap() as usize;
        *steps += 1;
        let opt = |v: &Value| if v.as_i64().unwrap() < 0 { None } else { Some(v.as_u64().unwrap() as usize) };
        let access = bv.access(x).map(|b| b as usize);
        let rank = bv.rank(x);
        let select = bv.select(x);
        if access != opt(&p["access"]) || rank != opt(&p["rank"]) || select != opt(&p["select"]) {
            return Some(json!({"bit_vector": name, "x": x, "expected": [p["access"], p["rank"], p["select"]], "observed": [format!("{access:?}"), format!("{rank:?}"), format!("{select:?}")]}));
        }
        if let (Some(a), Some(r)) = (access, rank) {
            if bv.access_rank(x) != Some((a == 1, r)) {
                return Some(json!({"bit_vector": name, "x": x, "access_rank": format!("{:?}", bv.access_rank(x))}));
            }
        }
    }
    None
}

pub fn main(args: &[String]) -> ! {
    // vh text-replay <tlc output>
    let (recs, bad) = read_replay_lines(&args[0], "TEXT");
    if bad > 0 { tool_error(&format!("{bad} TEXT lines did not parse")); }
    if std::env::var("VH_PANICS").is_err() { std::panic::set_hook(Box::new(|_| {})); }
    let mut rep = Report::default();
    // every case runs in its own thread with a deadline far beyond what the unchanged code needs (the largest case takes
    // seconds): an index that never answers is a wrong answer too, and must not turn into a tool time-out
    let deadline = std::time::Duration::from_secs(std::env::var("VH_CASE_SECS").ok().and_then(|s| s.parse().ok()).unwrap_or(90));
    for rec in &recs {
        rep.evaluations += 1;
        inflight(rec);
        let key = if rec.get("bits").is_some() { json!({"bits": rec["bits"]}) } else { json!({"text": rec["text"], "starts": rec["starts"]}) };
        let (tx, rx) = std::sync::mpsc::channel();
        let rec2 = rec.clone();
        std::thread::Builder::new().stack_size(256 << 20).spawn(move || {
            let mut steps = 0u64;
            let r = catch_unwind(AssertUnwindSafe(|| -> Option<Value> {
                if rec2.get("bits").is_some() {
                    check_bits::<scrunch::bit_vector::rrr::BitVector>("rrr", &rec2, &mut steps)
                        .or_else(|| check_bits::<scrunch::bit_vector::sparse::BitVector>("sparse", &rec2, &mut steps))
                        .or_else(|| check_bits::<scrunch::bit_vector::ReferenceBitVector>("reference", &rec2, &mut steps))
                } else {
                    let mut b1 = vec![];
                    let mut b2 = vec![];
                    check_doc::<scrunch::CompressedDocument>("compressed", &rec2, &mut b1, &mut steps)
                        .or_else(|| check_doc::<scrunch::ReferenceDocument>("reference", &rec2, &mut b2, &mut steps))
                }
            }));
            let _ = tx.send((steps, r.map_err(|_| ())));
        }).unwrap();
        match rx.recv_timeout(deadline) {
            Ok((steps, r)) => {
                rep.steps += steps;
                match r {
                    Ok(None) => {}
                    Ok(Some(v)) => rep.violation(json!({"case": key, "mismatch": v})),
                    Err(_) => rep.violation(json!({"case": key, "mismatch": {"panic": true}})),
                }
            }
            Err(_) => {
                // the stuck thread cannot be stopped: report and leave (the remaining cases of this file are not examined)
                rep.violation(json!({"case": key, "mismatch": {"no_answer_within_seconds": deadline.as_secs()}}));
                break;
            }
        }
        if rep.evaluations % 211 == 1 { rep.sample(key); }
    }
    rep.distinct = rep.evaluations;
    rep.finish()
}
