"""C06, C07 (concurrent half), and the watchdog part of C20 — spec/Conc.tla, spec/Trace_Conc.tla."""
import json
import os
import random
import re
import vlib
from vlib import Outcome, ToolError, cfg_text, run_tlc, run_vh_parallel

INV = ["Linearizable", "BatchAtomic", "CompletedVisible", "NoLostWrite"]
ASSUMPTIONS = [
    "each key group has a single writer issuing increasing counters, so the register-map linearizability condition is exact: "
    "done-at-begin <= value read <= started-at-end",
    "events are ordered by one atomic counter stamped before each call and after each return",
    "seeded yield points (hook, cfg blue_verif) widen the schedules; free-running threads otherwise",
    "Conc.tla: one scanner, <=2 writers x 2 batches, <=2 roll-overs, sequential consistency",
]


def conc_docs(rng, n, scan_heavy=False):
    docs = []
    for i in range(n):
        docs.append({"writers": rng.choice([1, 2, 3, 4]), "readers": rng.choice([1, 2, 4]), "scanners": rng.choice([1, 2, 3] if not scan_heavy else [3, 4, 6]),
                     "compactors": rng.choice([1, 1, 2, 3]), "iters": rng.choice([150, 300, 500]), "group_keys": rng.choice([1, 2, 2, 3, 4]),
                     "pad": rng.choice([0, 60, 300, 1200]), "yield_seed": rng.choice([0, rng.randrange(1, 1 << 30), rng.randrange(1, 1 << 30)]), "timeout": 90,
                     "opts": {"memtable-size-bytes": rng.choice([1, 800, 4000, 20000]), "max-compaction-files": rng.choice([2, 4, 64]),
                              "l0-mandatory-compaction-threshold-files": rng.choice([1, 2, 4]),
                              "l0-write-stall-threshold-files": rng.choice([4, 8, 12])}})
        if docs[-1]["pad"] >= 300:
            docs[-1]["opts"].update({"sst-target-file-size": 4096, "sst-minimum-file-size": 4096})
    return docs


def run_stress(out, wd, docs, prop, devs, label):
    jobs = []
    for i, d in enumerate(docs):
        dp = os.path.join(wd, f"{label}{i}.json")
        json.dump(d, open(dp, "w"))
        jobs.append(["conc-stress", dp, os.path.join(wd, f"{label}db{i}"), os.path.join(wd, f"{label}{i}.ndjson")])
    # not too many at once: each run has its own threads
    os.environ["VERIF_JOBS"] = "4"
    res = run_vh_parallel(jobs, timeout=600)
    os.environ.pop("VERIF_JOBS", None)
    for i, x in enumerate(res):
        for v in x.get("violations", []):
            out.violation(v["replay"], json.dumps(v["mismatch"])[:300])
        if x.get("crashed"):
            continue
        tp = os.path.join(wd, f"{label}{i}.ndjson")
        cfg = cfg_text(spec="TraceSpec", constants={"Dev": set(devs)}, postcondition="TraceAccepted")
        r = run_tlc("Trace_Conc", cfg, wd, f"t{label}{i}", workers=1, timeout=1200, dfs=True, heap="3g", env_extra={"TRACE": tp})
        text = open(r.out, errors="replace").read()
        nlines = sum(1 for _ in open(tp))
        out.states += r.distinct
        out.transitions += r.generated
        for dname in re.findall(r'"DEV-USED",\s*"([^"]+)"', text):
            out.extra.setdefault("deviations_exercised", [])
            if dname not in out.extra["deviations_exercised"]:
                out.extra["deviations_exercised"].append(dname)
        m = re.search(r'"matched", (\d+), "of", (\d+)', text)
        if m or r.distinct < nlines + 1:
            if r.error and not m:
                raise ToolError(f"TLC Trace_Conc: {r.error} ({r.out})")
            g = re.findall(r'"GUARD-FAILED",\s*"([^"]+)"', text)
            lines = open(tp).read().splitlines()
            at = int(m.group(1)) if m else 0
            path = vlib.save_replay(prop, "conc", {"doc": docs[i], "guard": g[-1] if g else None,
                                                   "rejected_event": json.loads(lines[at]) if at < len(lines) else None})
            out.violation(path, f"guard={g[-1] if g else None} event={lines[at][:240] if at < len(lines) else None}")
        else:
            out.traces += 1
            out.extra["events_validated"] = out.extra.get("events_validated", 0) + nlines
        import shutil
        shutil.rmtree(os.path.join(wd, f"{label}db{i}"), ignore_errors=True)


def check_C06(replay=None):
    prop = "C06"
    out = Outcome(prop)
    wd = vlib.workdir()
    vlib.build_harness()
    devs = vlib.open_deviations({prop})
    rng = random.Random(vlib.seed() * 6007 + 6)
    thorough = vlib.tier() != "quick"
    for shape in (1, 2, 3):
        consts = {"Shape": shape, "NW": 2, "Keys": "@{1, 2, 3}", "MaxRoll": 2 if (thorough or shape == 3) else 1, "Dev": set(devs)}
        r = run_tlc("Conc", cfg_text(constants=consts, invariants=INV if not devs else [i for i in INV if i != "BatchAtomic"]), wd, f"conc{shape}", workers=10, timeout=3000)
        if not r.ok():
            raise ToolError(f"TLC Conc shape {shape}: violated={r.violated} error={r.error} ({r.out})")
        out.add_tlc(f"Conc_shape{shape}", r, {k: (sorted(v) if isinstance(v, set) else v) for k, v in consts.items()})
    # negative control: the design as found (snapshot at the assigned sequence number) must break batch atomicity
    r = run_tlc("Conc", cfg_text(constants={"Shape": 3, "NW": 2, "Keys": "@{1, 2, 3}", "MaxRoll": 1, "Dev": {"SnapshotAtAssignedSeq"}}, invariants=INV),
                wd, "conc_neg", workers=4, timeout=600)
    if r.violated != "BatchAtomic":
        raise ToolError(f"negative control failed: expected BatchAtomic violation, got {r.violated} / {r.error}")
    r = run_tlc("Conc", cfg_text(constants={"Shape": 2, "NW": 2, "Keys": "@{1, 2, 3}", "MaxRoll": 1, "Dev": {"TreePinnedBeforeState"}}, invariants=INV),
                wd, "conc_neg2", workers=4, timeout=600)
    if not r.violated:
        raise ToolError(f"negative control failed: pinning the tree outside the critical section should lose a completed write, got {r.error}")
    out.extra["negative_controls"] = ["SnapshotAtAssignedSeq -> BatchAtomic", f"TreePinnedBeforeState -> {r.violated}"]
    docs = [json.load(open(replay))["doc"]] if replay else conc_docs(rng, 8 if not thorough else 60)
    if not replay:
        # pinned contention shapes: many writers with wide batches (long insert windows), several scanners, yields on
        for (w, g, sc) in [(6, 12, 4), (8, 6, 3)] + ([(4, 24, 4), (12, 4, 4)] if thorough else []):
            docs.append({"writers": w, "readers": 1, "scanners": sc, "compactors": 1, "iters": 100, "group_keys": g, "pad": 0,
                         "yield_seed": rng.randrange(1, 1 << 30), "timeout": 90,
                         "opts": {"memtable-size-bytes": 20000, "max-compaction-files": 4, "l0-mandatory-compaction-threshold-files": 2, "l0-write-stall-threshold-files": 8}})
    run_stress(out, wd, docs, prop, devs, "c6_")
    for k in vlib.load_known():
        if k["status"] == "open" and k.get("deviation") in out.extra.get("deviations_exercised", []):
            out.known(k["id"], f"{k['deviation']}: {k['what'][:200]}")
    out.samples = [json.dumps(d, separators=(",", ":"))[:400] for d in docs[:2]]
    out.extra["rule"] = "Conc.tla exhaustively (3 writer shapes); seeded multi-threaded runs of the real store validated event by event against Trace_Conc"
    return out.finish("model_checking", ASSUMPTIONS)


def check_C07(replay=None):
    import p_tree
    prop = "C07"
    out = Outcome(prop)
    wd = vlib.workdir()
    vlib.build_harness()
    devs = vlib.open_deviations({"C01", "C03", "C04", "C05", "C07", "C08"})
    rng = random.Random(vlib.seed() * 7919 + 7)
    thorough = vlib.tier() != "quick"
    if replay:
        body = json.load(open(replay))
        docs = [body["doc"]] if "ops" in body["doc"] else []
        cdocs = [body["doc"]] if "ops" not in body["doc"] else []
    else:
        n = 30 if not thorough else 300
        docs = [p_tree.gen_history(rng, i, "kvs", 70 if not thorough else 130, "C07") for i in range(n)]
        docs += [p_tree.gen_history(rng, n + i, "tree", 70, "C07") for i in range(n // 5)]
        cdocs = conc_docs(rng, 6 if not thorough else 40, scan_heavy=True)
    if docs:
        failures = p_tree.run_and_validate(out, wd, docs, "held", devs, prop)
        for f in failures:
            path = replay or vlib.save_replay(prop, "store-history", {"doc": f["doc"], "matched": f["matched"], "guard": f.get("guard"),
                                                                      "violated": f["violated"], "event": f["event"]})
            out.violation(path, f"violated={f['violated']} guard={f.get('guard')} at event {f['matched']}: {p_tree.summarize_event(f['event'])}")
    if cdocs:
        run_stress(out, wd, cdocs, prop, vlib.open_deviations({"C06"}), "c7_")
    for k in vlib.load_known():
        if k["status"] == "open" and k.get("deviation") in out.extra.get("deviations_exercised", []):
            out.known(k["id"], f"{k['deviation']}: {k['what'][:200]}")
    out.samples = [json.dumps(d, separators=(",", ":"))[:500] for d in (docs[:1] + cdocs[:1])]
    out.extra["rule"] = ("sequential histories in which up to three scan cursors are held open across writes, flushes, compaction steps, GCs and verifier "
                         "passes and stepped later (Trace_Tree Hold/HeldStep: every call shows the ideal cursor over the contents at open time); "
                         "plus scanner-heavy multi-threaded runs (a crash, an error or a torn snapshot is a violation)")
    return out.finish("model_checking", p_tree.ASSUMPTIONS + ["memory safety is observed, not proved: use of freed skip-list nodes shows as an abort/misaligned-pointer panic of the run (as it did before the fix), files that are gone as an error from the cursor"])
