"""C02 / C08 — crashes, faults and clean-up of the key-value store (spec/Trace_Disk.tla, shim)."""
import concurrent.futures
import json
import os
import random
import re
import shutil
import subprocess
import vlib
from vlib import Outcome, ToolError, cfg_text, run_tlc

SHIM = os.path.join(vlib.VERIF, "shim", "shim.so")

ASSUMPTIONS = [
    "persistence model (a): every completed system call persists; (b): additionally bytes written after a file's last successful fsync/fdatasync are lost; directory operations persist in both",
    "crash points: the instant before each mutating system call the shim sees (write, fsync/fdatasync, link, rename, unlink, mkdir, rmdir, creating open)",
    "sequential driver with single-step flush/compaction (hook H1); the verifier runs in-process between operations and once more after every recovery",
    "recovered state is read through the public API (load of every key) in a fresh process",
]


def gen_history(rng, i, focus):
    nkeys = rng.choice([2, 3])
    opts = {"memtable-size-bytes": 1 << 26, "max-compaction-files": rng.choice([2, 3, 64]),
            "l0-mandatory-compaction-threshold-files": rng.choice([1, 2, 4])}
    pad = rng.choice([0, 0, 1500])
    if pad:
        opts.update({"sst-target-file-size": 4096, "sst-minimum-file-size": 4096, "sst-target-block-size": 4096})
    if rng.random() < 0.5:
        opts["mani-log-rollover-ratio"] = rng.choice([0, 1])     # frequent manifest roll-overs
    ops = []
    vid = 0
    pending = False
    for _ in range(rng.randint(7, 13)):
        r = rng.random()
        if r < 0.38:
            vid += 1
            ops.append(["put", rng.randint(1, nkeys), vid]); pending = True
        elif r < 0.46:
            ops.append(["del", rng.randint(1, nkeys)]); pending = True
        elif r < 0.54:
            ks = rng.sample(range(1, nkeys + 1), rng.randint(1, nkeys))
            b = []
            for k in ks:
                vid += 1
                b.append([k, 0 if rng.random() < 0.3 else vid])
            ops.append(["batch", b]); pending = True
        elif r < 0.68:
            if pending:
                ops.append(["flush"]); pending = False
        elif r < 0.86:
            ops += [["compact"]] * rng.choice([1, 2, 3])
        elif r < 0.93 or (focus == "C08" and r < 0.97):
            ops.append(["verify"])
        else:
            ops.append(["reopen"]); pending = False
    if focus == "C08":
        ops += [["flush"]] if pending else []
        ops += [["compact"], ["compact"], ["verify"], ["compact"], ["verify"]]
    return {"run": i, "mode": "kvs", "opts": opts, "keyset": rng.choice(["plain", "prefix"]), "nkeys": nkeys, "pad": pad, "ops": ops}


def shim_run(dp, scratch, logp, extra=None):
    root = os.path.join(scratch, "db0")
    env = dict(os.environ, LD_PRELOAD=SHIM, SHIM_ROOT=root, SHIM_LOG=logp, VH_KEEP_DB="1")
    if extra:
        env.update(extra)
    p = subprocess.run([vlib.VH, "store-run", dp, scratch, os.path.join(scratch, "events.ndjson")], env=env,
                       stdout=subprocess.PIPE, stderr=subprocess.PIPE, text=True, timeout=300)
    return p.returncode, root


def recover(dp, root, logp):
    p = subprocess.run([vlib.VH, "store-recover", dp, root, logp], stdout=subprocess.PIPE, stderr=subprocess.PIPE, text=True, timeout=300)
    if p.returncode != 0:
        raise ToolError(f"store-recover rc={p.returncode}: {p.stderr[-300:]}")


def one_history(wd, doc, fault_stride):
    d = os.path.join(wd, f"h{doc['run']}")
    os.makedirs(d, exist_ok=True)
    dp = os.path.join(d, "doc.json")
    json.dump([doc], open(dp, "w"))
    scratch = os.path.join(d, "scr")
    trace = os.path.join(d, "trace.ndjson")
    base = os.path.join(d, "base.ndjson")
    shutil.rmtree(scratch, ignore_errors=True)
    rc, root = shim_run(dp, scratch, base)
    if rc != 0:
        raise ToolError(f"store-run base rc={rc}")
    ncalls = 0
    lines = open(base).read().splitlines()
    for line in lines:
        j = json.loads(line)
        if j["call"] == "mark" and j["mark"].get("op") == "close":
            ncalls = j["n"]
    runs = 1
    with open(trace, "w") as out:
        # the fault-free run, up to and including close (the harness's own clean-up follows)
        for line in lines:
            out.write(line + "\n")
            if '"op":"close"' in line:
                break
        points = [(n, m) for n in range(1, ncalls + 1) for m in ("a", "b")]
        for n, model in points:
            shutil.rmtree(scratch, ignore_errors=True)
            lp = os.path.join(d, "run.ndjson")
            if os.path.exists(lp):
                os.remove(lp)
            rc, root = shim_run(dp, scratch, lp, {"SHIM_CRASH_AT": str(n), "SHIM_MODEL": model})
            if rc != 77:
                raise ToolError(f"crash run n={n} model={model} rc={rc}")
            recover(dp, root, lp)
            out.write('{"call":"reset","n":0}\n')
            out.write(open(lp).read())
            runs += 1
        for n in range(1, ncalls + 1, fault_stride):
            for errno in (5, 28):
                shutil.rmtree(scratch, ignore_errors=True)
                lp = os.path.join(d, "run.ndjson")
                if os.path.exists(lp):
                    os.remove(lp)
                rc, root = shim_run(dp, scratch, lp, {"SHIM_FAIL_AT": f"{n}:{errno}"})
                kept = []
                for line in open(lp):
                    kept.append(line)
                    if '"op":"close"' in line:
                        break
                with open(lp, "w") as f:
                    f.writelines(kept)
                    f.write('{"call":"crash","n":0,"model":"a"}\n')
                recover(dp, root, lp)
                out.write('{"call":"reset","n":0}\n')
                out.write(open(lp).read())
                runs += 1
    shutil.rmtree(scratch, ignore_errors=True)
    return trace, runs, ncalls


def validate(wd, name, trace):
    cfg = cfg_text(spec="TraceSpec", postcondition="TraceAccepted")
    r = run_tlc("Trace_Disk", cfg, wd, name, workers=1, timeout=2400, dfs=True, heap="3g", env_extra={"TRACE": trace})
    text = open(r.out, errors="replace").read()
    nlines = sum(1 for _ in open(trace))
    info = {"accepted": False, "matched": None, "guard": None, "states": r.distinct, "generated": r.generated, "lines": nlines}
    m = re.search(r'"matched", (\d+), "of", (\d+)', text)
    if m:
        info["matched"] = int(m.group(1))
    g = re.findall(r'"GUARD-FAILED",\s*"([^"]+)"', text)
    if g:
        info["guard"] = g[-1]
    if r.error and info["matched"] is None:
        raise ToolError(f"TLC {name}: {r.error} ({r.out})")
    info["accepted"] = info["matched"] is None and r.distinct >= nlines + 1
    if not info["accepted"] and info["matched"] is None:
        raise ToolError(f"TLC {name}: not accepted, no position ({r.out})")
    return info


def check_prop(prop, replay=None):
    out = Outcome(prop)
    wd = vlib.workdir()
    vlib.build_harness()
    rng = random.Random(vlib.seed() * 977 + (2 if prop == "C02" else 8))
    if replay:
        docs = [json.load(open(replay))["doc"]]
    else:
        n = 6 if vlib.tier() == "quick" else 40
        docs = [gen_history(rng, i, prop) for i in range(n)]
    stride = 3 if vlib.tier() == "quick" else 1

    def work(doc):
        trace, runs, ncalls = one_history(wd, doc, stride)
        return doc, trace, runs, ncalls, validate(wd, f"disk{doc['run']}", trace)

    with concurrent.futures.ThreadPoolExecutor(max_workers=12) as ex:
        results = list(ex.map(work, docs))
    for doc, trace, runs, ncalls, info in results:
        out.states += info["states"]
        out.transitions += info["generated"]
        out.extra["crash_points"] = out.extra.get("crash_points", 0) + 2 * ncalls
        if info["accepted"]:
            out.traces += runs
            out.extra["events_validated"] = out.extra.get("events_validated", 0) + info["lines"]
        else:
            lines = open(trace).read().splitlines()
            at = info["matched"]
            start = at
            while start > 0 and '"call":"reset"' not in lines[start]:
                start -= 1
            ctx = [json.loads(x) for x in lines[start:at + 1]]
            crash = [c for c in ctx if c.get("call") == "crash"]
            path = replay or vlib.save_replay(prop, "disk", {"doc": doc, "guard": info["guard"], "crash": crash[-1] if crash else None,
                                                              "context": ctx[-10:]})
            out.violation(path, f"guard={info['guard']} crash={crash[-1] if crash else None} last={json.dumps(ctx[-1])[:300]}")
    if prop == "C08" and not replay:
        # sequential histories with reopen / verifier passes, including the pinned ones in which a compaction re-creates
        # one of its own inputs (a file name both removed and added by one edit): orphan clean-up on open and the
        # verifier's unlinking must leave every listed file in place (Trace_Tree: no read fails or changes afterwards)
        import p_tree
        hdocs = p_tree.regression_histories() + [p_tree.gen_history(rng, 100 + i, "kvs", 80, "C05") for i in range(8 if vlib.tier() == "quick" else 80)]
        for f in p_tree.run_and_validate(out, wd, hdocs, "c8h", vlib.open_deviations({"C01", "C03", "C04", "C05", "C08"}), prop):
            path = vlib.save_replay(prop, "store-history", {"doc": f["doc"], "matched": f["matched"], "guard": f.get("guard"), "violated": f["violated"], "event": f["event"]})
            out.violation(path, f"violated={f['violated']} guard={f.get('guard')} at event {f['matched']}: {p_tree.summarize_event(f['event'])}")
    out.samples = [json.dumps(d, separators=(",", ":"))[:500] for d in docs[:2]]
    out.extra["rule"] = ("seeded store histories (put/del/batch/flush/compaction steps/verifier passes/reopen, option grid incl. frequent manifest "
                         "roll-over) under the syscall shim: fault-free run, crash before every mutating call in models (a) and (b), EIO and ENOSPC "
                         "injected at calls; each followed by a reopen in a fresh process, a verifier pass and a second reopen; every trace "
                         "validated by TLC against Trace_Disk")
    return out.finish("model_checking", ASSUMPTIONS)


def check_C02(replay=None):
    return check_prop("C02", replay)


def check_C08(replay=None):
    return check_prop("C08", replay)
