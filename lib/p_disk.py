"""C02 / C08 — crashes, faults and clean-up of the key-value store (spec/Trace_Disk.tla, shim)."""
import concurrent.futures
import json
import os
import random
import re
import shutil
import subprocess
import vlib
from vlib import Outcome, ToolError, cfg_text, run_tlc

SHIM = os.path.join(vlib.VERIF, "shim", "shim.so")

ASSUMPTIONS = [
    "persistence model (a): every completed system call persists; (b): additionally bytes written after a file's last successful fsync/fdatasync are lost; directory operations persist in both",
    "crash points: the instant before each mutating system call the shim sees (write, fsync/fdatasync, link, rename, unlink, mkdir, rmdir, creating open)",
    "sequential driver with single-step flush/compaction (hook H1); the verifier runs in-process between operations and once more after every recovery",
    "recovered state is read through the public API (load of every key) in a fresh process",
    "schedules: besides the sequential one, those in which the memtable thread is descheduled just before it renames a flushed log into trash/ "
    "while clients, compactions, readers and the verifier run on until the crash (shim SHIM_STALL_AT; no second flush or reopen inside such a window)",
]

# the clean-up race of round-4 seed C08-3: S flushed, its log not yet in trash (memtable thread descheduled), a reader holds the version,
# a compaction retires S (the manifest says -S, the file stays in sst/ because of the reader), crash: the replayed log re-adds S
C15 = [["compact"]] * 15


def stalled_merge_doc(run, keyset, nkeys, ka, kb, opts, tail):
    """A flushed file S merged away while its log is still in the store's root.  Trivial moves cost no system call and are always
    preferred, and a level is only considered for a merge while the level above it holds something.  So: A = {ka} and X = {kb} sink
    to the last level, Y = {kb} stops above X (stable: nothing above it); T = {kb} is flushed and left in level 0; S = {ka} is
    flushed last.  The steps that follow sink S and T together: S stops beside Y (A is below it), T stops above Y, and the next
    step merges S with A (ka < kb: S is the first candidate of its level).  With the retirement of S's log held back and a
    reader holding the version, a crash after that merge leaves: -S in the manifest, S in sst/, the log of S in the root."""
    v = [0]

    def put(k):
        v[0] += 1
        return ["put", k, v[0]]
    # A also holds a key between ka and kb, S holds ka three times: the merged file differs from both (were it equal to S, the merge would
    # re-create S under its own name and never retire it), and S is larger than A (the score of the merge is not negative)
    ops = [put(ka), put(ka + 1), ["flush"]] + C15 + [put(kb), ["flush"]] + C15 + [put(kb), ["flush"]] + C15 + [put(kb), ["flush"]]
    ops += [put(ka), put(ka), put(ka), ["flush"], ["hold", 1, ["U", 0], ["U", 0]]] + C15 + C15 + [["compact"]] + tail
    o = {"memtable-size-bytes": 1 << 26, "max-compaction-files": 64, "l0-mandatory-compaction-threshold-files": 4}
    o.update(opts)
    return {"run": run, "mode": "kvs", "opts": o, "keyset": keyset, "nkeys": nkeys, "pad": 0, "ops": ops}


def gen_merge_history(rng, i, focus):
    """The stack recipe with random keys, options and continuation: the crash campaign then covers every call of real merges
    (output files, the manifest edit, the roll-over that may follow, inputs moved to trash), with and without a held reader."""
    nkeys = rng.choice([3, 4])
    ka = rng.randint(1, nkeys - 2)
    kb = rng.randint(ka + 2, nkeys)
    opts = {"l0-mandatory-compaction-threshold-files": rng.choice([4, 6])}
    if rng.random() < 0.4:
        opts["mani-log-rollover-ratio"] = rng.choice([0, 1])
    tail = []
    vid = 100
    pending = False
    for _ in range(rng.randint(3, 7)):
        r = rng.random()
        if r < 0.35:
            vid += 1
            tail.append(["put", rng.randint(1, nkeys), vid]); pending = True
        elif r < 0.45:
            tail.append(["del", rng.randint(1, nkeys)]); pending = True
        elif r < 0.55 and pending:
            tail.append(["flush"]); pending = False
        elif r < 0.75:
            tail += [["compact"]] * rng.choice([1, 2, 16])
        elif r < 0.85:
            tail.append(["verify"])
        elif r < 0.93:
            tail.append(["drop", 1])
        else:
            tail.append(["reopen"]); pending = False
    tail += [["compact"], ["verify"]] if focus == "C08" else []
    doc = stalled_merge_doc(i, rng.choice(["plain", "prefix"]), nkeys, ka, kb, opts, tail)
    if rng.random() < 0.4:
        doc["ops"] = [o for o in doc["ops"] if o[0] not in ("hold", "drop")]      # no reader: the inputs go to trash at once
    return doc


PINNED = [
    stalled_merge_doc(900, "plain", 3, 1, 3, {}, [["put", 1, 90], ["compact"], ["verify"], ["drop", 1], ["compact"], ["verify"]]),
    stalled_merge_doc(901, "prefix", 3, 1, 3, {"mani-log-rollover-ratio": 0}, [["verify"], ["del", 2], ["compact"], ["verify"]]),
]


def gen_history(rng, i, focus):
    nkeys = rng.choice([2, 3])
    opts = {"memtable-size-bytes": 1 << 26, "max-compaction-files": rng.choice([2, 3, 64]),
            "l0-mandatory-compaction-threshold-files": rng.choice([1, 2, 4])}
    pad = rng.choice([0, 0, 1500])
    if pad:
        opts.update({"sst-target-file-size": 4096, "sst-minimum-file-size": 4096, "sst-target-block-size": 4096})
    if rng.random() < 0.5:
        opts["mani-log-rollover-ratio"] = rng.choice([0, 1])     # frequent manifest roll-overs
    ops = []
    vid = 0
    pending = False
    held = []
    for _ in range(rng.randint(7, 13)):
        r = rng.random()
        if focus == "C08" and rng.random() < 0.12:
            # a reader snapshot held across whatever follows (files it reads are retired only when it goes)
            if held and rng.random() < 0.5:
                ops.append(["drop", held.pop()])
            else:
                held.append(len(held) + 1 + 10 * len(ops))
                ops.append(["hold", held[-1], ["U", 0], ["U", 0]])
            continue
        if r < 0.38:
            vid += 1
            ops.append(["put", rng.randint(1, nkeys), vid]); pending = True
        elif r < 0.46:
            ops.append(["del", rng.randint(1, nkeys)]); pending = True
        elif r < 0.54:
            ks = rng.sample(range(1, nkeys + 1), rng.randint(1, nkeys))
            b = []
            for k in ks:
                vid += 1
                b.append([k, 0 if rng.random() < 0.3 else vid])
            ops.append(["batch", b]); pending = True
        elif r < 0.68:
            if pending:
                ops.append(["flush"]); pending = False
        elif r < 0.86:
            ops += [["compact"]] * rng.choice([1, 2, 3])
        elif r < 0.93 or (focus == "C08" and r < 0.97):
            ops.append(["verify"])
        else:
            ops.append(["reopen"]); pending = False; held = []
    if focus == "C08":
        ops += [["flush"]] if pending else []
        ops += [["compact"], ["compact"], ["verify"], ["compact"], ["verify"]]
    return {"run": i, "mode": "kvs", "opts": opts, "keyset": rng.choice(["plain", "prefix"]), "nkeys": nkeys, "pad": pad, "ops": ops}


def shim_run(dp, scratch, logp, extra=None):
    root = os.path.join(scratch, "db0")
    env = dict(os.environ, LD_PRELOAD=SHIM, SHIM_ROOT=root, SHIM_LOG=logp, VH_KEEP_DB="1")
    if extra:
        env.update(extra)
    p = subprocess.run([vlib.VH, "store-run", dp, scratch, os.path.join(scratch, "events.ndjson")], env=env,
                       stdout=subprocess.PIPE, stderr=subprocess.PIPE, text=True, timeout=300)
    return p.returncode, root


def recover(dp, root, logp):
    p = subprocess.run([vlib.VH, "store-recover", dp, root, logp], stdout=subprocess.PIPE, stderr=subprocess.PIPE, text=True, timeout=300)
    if p.returncode != 0:
        raise ToolError(f"store-recover rc={p.returncode}: {p.stderr[-300:]}")


def one_history(wd, doc, fault_stride, stall_cap=0):
    d = os.path.join(wd, f"h{doc['run']}")
    os.makedirs(d, exist_ok=True)
    dp = os.path.join(d, "doc.json")
    json.dump([doc], open(dp, "w"))
    scratch = os.path.join(d, "scr")
    trace = os.path.join(d, "trace.ndjson")
    base = os.path.join(d, "base.ndjson")
    shutil.rmtree(scratch, ignore_errors=True)
    rc, root = shim_run(dp, scratch, base)
    if rc != 0:
        raise ToolError(f"store-run base rc={rc}")
    ncalls = 0
    lines = open(base).read().splitlines()
    for line in lines:
        j = json.loads(line)
        if j["call"] == "mark" and j["mark"].get("op") == "close":
            ncalls = j["n"]
    runs = 1
    with open(trace, "w") as out:
        # the fault-free run, up to and including close (the harness's own clean-up follows)
        for line in lines:
            out.write(line + "\n")
            if '"op":"close"' in line:
                break
        points = [(n, m) for n in range(1, ncalls + 1) for m in ("a", "b")]
        for n, model in points:
            shutil.rmtree(scratch, ignore_errors=True)
            lp = os.path.join(d, "run.ndjson")
            if os.path.exists(lp):
                os.remove(lp)
            rc, root = shim_run(dp, scratch, lp, {"SHIM_CRASH_AT": str(n), "SHIM_MODEL": model})
            if rc != 77:
                raise ToolError(f"crash run n={n} model={model} rc={rc}")
            recover(dp, root, lp)
            out.write('{"call":"reset","n":0}\n')
            out.write(open(lp).read())
            runs += 1
        for n in range(1, ncalls + 1, fault_stride):
            for errno in (5, 28):
                shutil.rmtree(scratch, ignore_errors=True)
                lp = os.path.join(d, "run.ndjson")
                if os.path.exists(lp):
                    os.remove(lp)
                rc, root = shim_run(dp, scratch, lp, {"SHIM_FAIL_AT": f"{n}:{errno}"})
                kept = []
                for line in open(lp):
                    kept.append(line)
                    if '"op":"close"' in line:
                        break
                with open(lp, "w") as f:
                    f.writelines(kept)
                    f.write('{"call":"crash","n":0,"model":"a"}\n')
                recover(dp, root, lp)
                out.write('{"call":"reset","n":0}\n')
                out.write(open(lp).read())
                runs += 1
        # held-back log retirements: crash at the points that follow, up to the next flush or reopen
        stall_runs = 0
        kind = {}
        for line in lines:
            j = json.loads(line)
            if j["call"] != "mark":
                kind[j["n"]] = j["call"]
        for n_s, hi in stall_windows(lines, ncalls):
            pts = list(range(n_s + 1, hi + 1))
            if stall_cap and len(pts) > stall_cap:
                # the points around directory operations and syncs first (where the durable state changes shape), then evenly
                key = [n for n in pts if kind.get(n) in ("link", "rename", "unlink", "fsync", "fdatasync") or kind.get(n - 1) in ("link", "rename", "fsync", "fdatasync")]
                if len(key) > stall_cap:
                    step = len(key) / float(stall_cap)
                    key = [key[int(i * step)] for i in range(stall_cap)]
                pts = sorted(set(key) | {pts[-1]})
            for n in pts:
                for model in ("a", "b"):
                    shutil.rmtree(scratch, ignore_errors=True)
                    lp = os.path.join(d, "run.ndjson")
                    if os.path.exists(lp):
                        os.remove(lp)
                    rc, root = shim_run(dp, scratch, lp, {"SHIM_STALL_AT": str(n_s), "SHIM_CRASH_AT": str(n), "SHIM_MODEL": model})
                    if rc == 0:
                        continue        # with the log left in place the run makes fewer calls than the fault-free one: no such point
                    if rc != 77:
                        raise ToolError(f"stall run stall={n_s} crash={n} model={model} rc={rc}")
                    recover(dp, root, lp)
                    out.write('{"call":"reset","n":0}\n')
                    out.write(open(lp).read())
                    runs += 1
                    stall_runs += 1
    shutil.rmtree(scratch, ignore_errors=True)
    return trace, runs, ncalls, stall_runs


def stall_windows(lines, ncalls):
    """(n of a flushed log's rename into trash/, last crash point of its window) from a fault-free shim log."""
    evs = [json.loads(x) for x in lines]
    out = []
    cur = None
    for idx, j in enumerate(evs):
        if j["call"] == "mark":
            m = j["mark"]
            if m.get("op") == "begin":
                cur = m["opv"][0]
            elif m.get("op") in ("ack", "err"):
                cur = None
            elif m.get("op") == "close":
                break
            continue
        if cur == "flush" and j["call"] == "rename" and j["path"].startswith("log.") and j["path2"].startswith("trash/") and not j.get("fail") and not j.get("ret"):
            hi = ncalls
            for k in evs[idx + 1:]:
                if k["call"] == "mark" and (k["mark"].get("op") == "close" or (k["mark"].get("op") == "begin" and k["mark"]["opv"][0] in ("flush", "reopen", "ingest"))):
                    hi = min(ncalls, k["n"] + 1)
                    break
            if hi > j["n"]:
                out.append((j["n"], hi))
    return out


def validate(wd, name, trace):
    cfg = cfg_text(spec="TraceSpec", postcondition="TraceAccepted")
    r = run_tlc("Trace_Disk", cfg, wd, name, workers=1, timeout=2400, dfs=True, heap="3g", env_extra={"TRACE": trace})
    text = open(r.out, errors="replace").read()
    nlines = sum(1 for _ in open(trace))
    info = {"accepted": False, "matched": None, "guard": None, "states": r.distinct, "generated": r.generated, "lines": nlines}
    m = re.search(r'"matched", (\d+), "of", (\d+)', text)
    if m:
        info["matched"] = int(m.group(1))
    g = re.findall(r'"GUARD-FAILED",\s*"([^"]+)"', text)
    if g:
        info["guard"] = g[-1]
    if r.error and info["matched"] is None:
        raise ToolError(f"TLC {name}: {r.error} ({r.out})")
    info["accepted"] = info["matched"] is None and r.distinct >= nlines + 1
    if not info["accepted"] and info["matched"] is None:
        raise ToolError(f"TLC {name}: not accepted, no position ({r.out})")
    return info


CLEANUP_INV = ["TypeOK", "ListedPresent", "VersionsPresent", "WritesKept", "CountsCover"]
CLEANUP_NEG = (("ScanSkipsLive", "ListedPresent", "seed C08-3"), ("ScanAddsBeforeRms", "ListedPresent", "seed C04-3"),
               ("ReplaySkipsListing", "WritesKept", "seed C08-2"), ("UnrefIgnoresCount", "VersionsPresent", "a reader's files renamed under it"))


def design_model(out, wd):
    """Cleanup.tla: memtable thread, compaction, readers, roll-over, verifier, crash and reopen as separate processes; every
    interleaving within the bounds; each deviation must break the invariant it is meant to."""
    files = dict(LogFiles={"l1", "l2"}, OutFiles={"o1"}, MaxFrags=3, MaxHeld=1)
    bounds = dict(files, MaxEdits=3, MaxCrash=1) if vlib.tier() == "quick" else dict(files, MaxEdits=4, MaxCrash=2, MaxHeld=2)
    r = run_tlc("Cleanup", cfg_text(constants=dict(bounds, CrossRecreate=False, Dev=set()), invariants=CLEANUP_INV), wd, "cleanup_mc", workers=8, timeout=6000, heap="24g")
    if not r.ok():
        raise ToolError(f"TLC Cleanup: violated={r.violated} error={r.error} ({r.out})")
    out.add_tlc("Cleanup_design_model", r, {k: (sorted(v) if isinstance(v, set) else v) for k, v in bounds.items()})
    small = dict(files, MaxEdits=3, MaxCrash=1)
    # specification -> implementation: every crash image the model reaches (MC_Cleanup prints them with what its Reopen makes of
    # them) is built with real tables, logs and manifest fragments and reopened by the real store
    emit = small if vlib.tier() == "quick" else dict(files, MaxEdits=4, MaxCrash=1)
    re_ = run_tlc("MC_Cleanup", cfg_text(constants=dict(emit, CrossRecreate=False, Dev=set()), invariants=CLEANUP_INV + ["Emit"]), wd, "cleanup_emit", workers=8, timeout=6000, heap="24g")
    if not re_.ok():
        raise ToolError(f"TLC MC_Cleanup: violated={re_.violated} error={re_.error} ({re_.out})")
    shards = 8
    res = vlib.run_vh_parallel([["cleanup-replay", re_.out, os.path.join(wd, f"clscr{i}"), "0", str(shards), str(i)] for i in range(shards)], timeout=3000)
    images = 0
    for x in res:
        if x.get("crashed"):
            raise ToolError(f"cleanup-replay died: {x}")
        images += x.get("evaluations", 0)
        for v in x.get("violations", [])[:2]:
            path = vlib.save_replay("C08", "image", v)
            out.violation(path, f"crash image reopened by the real store: {json.dumps(v['mismatch'])[:400]}")
    if images == 0:
        raise ToolError("MC_Cleanup emitted no crash image")
    out.traces += images
    out.extra["crash_images_reopened"] = images
    controls = []
    for dev, want, what in CLEANUP_NEG:
        rn = run_tlc("Cleanup", cfg_text(constants=dict(small, CrossRecreate=False, Dev={dev}), invariants=CLEANUP_INV), wd, f"cleanup_neg_{dev}", workers=4, timeout=900)
        if rn.violated != want:
            raise ToolError(f"negative control failed: Cleanup.tla with {dev} should violate {want}, got {rn.violated} / {rn.error}")
        controls.append(f"{dev} -> {want} ({what})")
    # conditional observation, not a finding: were a later compaction able to re-create a file an earlier one removed, the rename
    # of explicit_unref (not atomic with the count) could take the re-listed file out of sst/.  No history of the real store does that.
    rc = run_tlc("Cleanup", cfg_text(constants=dict(small, CrossRecreate=True, Dev=set()), invariants=CLEANUP_INV), wd, "cleanup_cross", workers=4, timeout=900)
    out.extra["cleanup_negative_controls"] = controls
    out.extra["cleanup_cross_recreate"] = f"CrossRecreate=TRUE violates {rc.violated} in the model (conditional observation, DESIGN.md 10.20; not reachable in the real store as far as could be established)"


def check_prop(prop, replay=None):
    out = Outcome(prop)
    wd = vlib.workdir()
    vlib.build_harness()
    if prop == "C08" and not replay:
        design_model(out, wd)
    rng = random.Random(vlib.seed() * 977 + (2 if prop == "C02" else 8))
    if replay and "image" in json.load(open(replay)):
        v = json.load(open(replay))
        ip = os.path.join(wd, "image.out")
        open(ip, "w").write('<<"IMG", ' + json.dumps(json.dumps(v["image"])) + ">>\n")
        x = vlib.run_vh_parallel([["cleanup-replay", ip, os.path.join(wd, "clscr")]], timeout=600)[0]
        for m in x.get("violations", []):
            out.violation(replay, f"crash image reopened by the real store: {json.dumps(m['mismatch'])[:400]}")
        return out.finish("model_checking", ASSUMPTIONS)
    if replay:
        docs = [json.load(open(replay))["doc"]]
    else:
        n = 6 if vlib.tier() == "quick" else 40
        docs = [gen_merge_history(rng, i, prop) if i % 3 == 2 else gen_history(rng, i, prop) for i in range(n)] + (PINNED if prop == "C08" else PINNED[:1])
    stride = 3 if vlib.tier() == "quick" else 1
    stall_cap = 24 if vlib.tier() == "quick" else 0

    def work(doc):
        trace, runs, ncalls, stall_runs = one_history(wd, doc, stride, stall_cap)
        return doc, trace, runs, ncalls, stall_runs, validate(wd, f"disk{doc['run']}", trace)

    with concurrent.futures.ThreadPoolExecutor(max_workers=12) as ex:
        results = list(ex.map(work, docs))
    for doc, trace, runs, ncalls, stall_runs, info in results:
        out.extra["stalled_schedule_crashes"] = out.extra.get("stalled_schedule_crashes", 0) + stall_runs
        out.states += info["states"]
        out.transitions += info["generated"]
        out.extra["crash_points"] = out.extra.get("crash_points", 0) + 2 * ncalls
        if info["accepted"]:
            out.traces += runs
            out.extra["events_validated"] = out.extra.get("events_validated", 0) + info["lines"]
        else:
            lines = open(trace).read().splitlines()
            at = info["matched"]
            start = at
            while start > 0 and '"call":"reset"' not in lines[start]:
                start -= 1
            ctx = [json.loads(x) for x in lines[start:at + 1]]
            crash = [c for c in ctx if c.get("call") == "crash"]
            path = replay or vlib.save_replay(prop, "disk", {"doc": doc, "guard": info["guard"], "crash": crash[-1] if crash else None,
                                                              "context": ctx[-10:]})
            out.violation(path, f"guard={info['guard']} crash={crash[-1] if crash else None} last={json.dumps(ctx[-1])[:300]}")
    if prop == "C08" and not replay:
        # sequential histories with reopen / verifier passes, including the pinned ones in which a compaction re-creates
        # one of its own inputs (a file name both removed and added by one edit): orphan clean-up on open and the
        # verifier's unlinking must leave every listed file in place (Trace_Tree: no read fails or changes afterwards)
        import p_tree
        hdocs = p_tree.regression_histories() + [p_tree.gen_history(rng, 100 + i, "kvs", 80, "C05") for i in range(8 if vlib.tier() == "quick" else 80)]
        for f in p_tree.run_and_validate(out, wd, hdocs, "c8h", vlib.open_deviations({"C01", "C03", "C04", "C05", "C08"}), prop):
            path = vlib.save_replay(prop, "store-history", {"doc": f["doc"], "matched": f["matched"], "guard": f.get("guard"), "violated": f["violated"], "event": f["event"]})
            out.violation(path, f"violated={f['violated']} guard={f.get('guard')} at event {f['matched']}: {p_tree.summarize_event(f['event'])}")
    out.samples = [json.dumps(d, separators=(",", ":"))[:500] for d in docs[:2]]
    out.extra["rule"] = ("seeded store histories (put/del/batch/flush/compaction steps/verifier passes/reopen, option grid incl. frequent manifest "
                         "roll-over) under the syscall shim: fault-free run, crash before every mutating call in models (a) and (b), EIO and ENOSPC "
                         "injected at calls, and crashes in the schedules where a flushed log's retirement is held back; each followed by a reopen in a fresh process, a verifier pass and a second reopen; every trace "
                         "validated by TLC against Trace_Disk")
    return out.finish("model_checking", ASSUMPTIONS)


def check_C02(replay=None):
    return check_prop("C02", replay)


def check_C08(replay=None):
    return check_prop("C08", replay)
