"""C01, C03, C04, C05 — the LSM tree/store (spec/Tree.tla, Trace_Tree.tla, MC_Tree.tla).

Binding C: seeded drivers run real KeyValueStore / LsmTree histories under single-step control
(hook H1) and log the projected abstract state after every step (hook H2); TLC validates every
trace against Trace_Tree, evaluating the property-level guards at each step and the invariants
in each state.
"""
import json
import os
import random
import subprocess
import vlib
from vlib import Outcome, ToolError, cfg_text, run_tlc, run_vh_parallel, log

BOUNDS = [["U", 0]]

OPT_GRID = [
    {"max-compaction-files": 2, "l0-mandatory-compaction-threshold-files": 2},
    {"max-compaction-files": 3, "l0-mandatory-compaction-threshold-files": 1},
    {"max-compaction-files": 64, "l0-mandatory-compaction-threshold-files": 4},
    {"max-compaction-files": 2, "l0-mandatory-compaction-threshold-files": 4, "max-compaction-bytes": 20000},
    {"max-compaction-files": 4, "l0-mandatory-compaction-threshold-files": 3},
]


def gen_history(rng, run, mode="kvs", nops=60, focus="C01"):
    nkeys = rng.choice([2, 3, 3, 4, 6])
    keyset = rng.choice(["plain", "prefix", "long"])
    pad = rng.choice([0, 0, 1500, 2500])
    if focus == "C03" and rng.random() < 0.6:
        # several files per level, so that scans and seeks cross file boundaries inside a level
        nkeys = rng.choice([4, 6, 6])
        pad = rng.choice([1500, 2500])
    if focus == "C07" and rng.random() < 0.7:
        # several files per level, so that a held cursor still has files to open lazily
        nkeys = rng.choice([4, 6, 6])
        pad = rng.choice([1500, 2500])
    opts = dict(rng.choice(OPT_GRID))
    opts["memtable-size-bytes"] = 1 << 26
    if pad:
        opts["sst-target-file-size"] = 4096
        opts["sst-minimum-file-size"] = 4096
        opts["sst-target-block-size"] = 4096
    if focus == "C07" and rng.random() < 0.6:
        opts["sst-cache-bytes"] = 0          # nothing stays cached: a lazily opened SST is opened by path
    if rng.random() < (0.7 if focus == "C05" else 0.25):
        opts["gc-policy"] = rng.choice(["versions = 2", "versions = 3", "versions = 1", "versions = 4"])
    if focus == "C05" and pad == 0 and rng.random() < 0.5:
        pad = 2500
        opts["sst-target-file-size"] = 4096
        opts["sst-minimum-file-size"] = 4096
        opts["sst-target-block-size"] = 4096
    ops = []
    vid = 0
    style = rng.choice(["mixed", "hot", "churn", "deep", "deep"])
    ts = 10
    pending = 0
    open_cursors = []
    next_cursor = [0]
    for _ in range(nops):
        r = rng.random()
        if focus == "C07" and rng.random() < 0.45:
            # scan cursors held open across whatever the store does next
            c = rng.random()
            if (c < 0.35 and len(open_cursors) < 3) or not open_cursors:
                next_cursor[0] += 1
                sc = scan_op(rng, nkeys)
                ops.append(["hold", next_cursor[0], sc[1] if rng.random() < 0.5 else ["U", 0], sc[2] if rng.random() < 0.5 else ["U", 0]])
                open_cursors.append(next_cursor[0])
            elif c < 0.9:
                calls = scan_op(rng, nkeys)[3] if rng.random() < 0.5 else [["next"]] * rng.randint(1, 3)
                cid = rng.choice(open_cursors)
                if rng.random() < 0.3:
                    # run the cursor to its end, let compactions retire what it read, then use it again
                    ops.append(["step", cid, [["first"]] + [["next"]] * (3 * nkeys + 4)])
                    ops += [["compact"]] * rng.randint(2, 8)
                    calls = rng.choice([[["prev"], ["prev"]], [["first"], ["next"], ["next"]], [["seek", rng.randint(1, nkeys)], ["next"]], [["last"], ["prev"]]])
                ops.append(["step", cid, calls])
                if rng.random() < 0.5:
                    ops += [["compact"]] * rng.randint(1, 4)
            else:
                cid = rng.choice(open_cursors)
                open_cursors.remove(cid)
                ops.append(["drop", cid])
            continue
        if focus == "C03" and rng.random() < 0.3:
            ops.append(scan_op(rng, nkeys))
            if rng.random() < 0.25:
                # a sweep: every key as a seek target and as an included / excluded start bound (file boundaries
                # inside a level are wherever the compactions happened to cut)
                for k in range(1, nkeys + 1):
                    ops.append(["scan", ["U", 0], ["U", 0], [["seek", k], ["next"], ["prev"]]])
                    ops.append(["scan", [rng.choice(["I", "E"]), k], ["U", 0], [["first"], ["next"], ["next"]]])
            continue
        if focus == "C05" and rng.random() < 0.25:
            ops.append(["compact"])
            continue
        hotk = 1 if style == "hot" and rng.random() < 0.6 else rng.randint(1, nkeys)
        if mode == "tree":
            if r < 0.45:
                n = rng.randint(1, 4)
                ks = sorted(rng.sample(range(1, nkeys + 1), min(n, nkeys)))
                ents = []
                for k in ks:
                    nv = rng.choice([1, 1, 2, 3])
                    vs = []
                    for _ in range(nv):
                        ts += 1
                        vid += 1
                        vs.append([k, ts, 0 if rng.random() < 0.25 else vid])
                    ents.extend(sorted(vs, key=lambda e: -e[1]))
                ops.append(["ingest", ents])
                if style == "deep":
                    ops += [["compact"]] * 17
            elif r < 0.85:
                ops.append(["compact"])
            elif r < 0.93:
                ops.append(["reopen"])
                open_cursors.clear()
            else:
                ops.append(scan_op(rng, nkeys))
            continue
        if r < 0.38:
            vid += 1
            ops.append(["put", hotk, vid])
            pending += 1
        elif r < 0.50:
            ops.append(["del", hotk])
            pending += 1
        elif r < 0.57:
            ks = rng.sample(range(1, nkeys + 1), rng.randint(1, min(3, nkeys)))
            b = []
            for k in ks:
                vid += 1
                b.append([k, 0 if rng.random() < 0.3 else vid])
            ops.append(["batch", b])
            pending += 1
        elif r < 0.70:
            if pending:
                ops.append(["flush"])
                pending = 0
                if style == "deep":
                    # let the tree settle: files travel to the bottom, top-level GCs happen
                    ops += [["compact"]] * 17
        elif r < 0.88:
            ops.append(["compact"])
        elif r < 0.92:
            ops.append(["reopen"])
            open_cursors.clear()
            pending = 0
        elif r < 0.95:
            ops.append(["verify"])
        else:
            ops.append(scan_op(rng, nkeys))
    if style == "churn":
        ops += [["compact"]] * 6
    return {"run": run, "mode": mode, "opts": opts, "keyset": keyset, "nkeys": nkeys, "pad": pad, "ops": ops}


def scan_op(rng, nkeys):
    def b():
        kind = rng.choice(["U", "I", "E"])
        return [kind, 0 if kind == "U" else rng.randint(1, nkeys)]
    calls = []
    for _ in range(rng.randint(2, 7)):
        c = rng.choice(["first", "last", "next", "next", "prev", "prev", "seek"])
        calls.append([c, rng.randint(0, nkeys + 1)] if c == "seek" else [c])
    return ["scan", b(), b(), calls]


INVARIANTS = ["InvReadLatest", "InvNoLoss", "InvNoDup", "InvScan"]


def validate(wd, name, trace, devs, timeout=None):
    timeout = timeout or (1200 if vlib.tier() == "quick" else 4800)
    cfg = cfg_text(spec="TraceSpec", constants={"Dev": set(devs)}, invariants=INVARIANTS,
                   postcondition="TraceAccepted")
    r = run_tlc("Trace_Tree", cfg, wd, name, workers=1, timeout=timeout, dfs=True, heap="3g",
                env_extra={"TRACE": trace})
    for attempt in range(2):
        # a JVM that could not get memory or a thread while a dozen others were running is not a verdict: run it again
        if r.error and "unexpected exception" in r.error and not r.violated and "TRACE-REJECTED" not in open(r.out, errors="replace").read():
            r = run_tlc("Trace_Tree", cfg, wd, f"{name}.again{attempt}", workers=1, timeout=timeout, dfs=True, heap="3g", env_extra={"TRACE": trace})
    nlines = sum(1 for _ in open(trace))
    info = {"accepted": False, "matched": None, "lines": nlines, "violated": r.violated, "error": r.error,
            "states": r.distinct, "generated": r.generated}
    rejected = False
    with open(r.out, errors="replace") as f:
        text = f.read()
    if "TRACE-REJECTED" in text:
        rejected = True
        import re
        m = re.search(r'"matched", (\d+), "of", (\d+)', text)
        if m:
            info["matched"] = int(m.group(1))
    if r.violated:
        # which trace line: the last state's l
        import re
        ls = re.findall(r"^/\\ l = (\d+)", text, re.M)
        if ls:
            info["matched"] = int(ls[-1]) - 1
    if r.error and not rejected and not r.violated:
        raise ToolError(f"TLC trace validation {name}: {r.error} (see {r.out})")
    info["accepted"] = (not rejected) and (not r.violated) and r.distinct >= nlines + 1
    if not info["accepted"] and info["matched"] is None:
        raise ToolError(f"TLC trace validation {name}: not accepted but no position (see {r.out})")
    return info, r


def run_and_validate(out, wd, docs, label, devs, props, max_fail_per_chunk=4):
    """Execute histories on the real store (parallel chunks), validate each chunk's trace with TLC.
    On a rejection the run that contains the rejected line is recorded and removed, and the rest of
    the chunk is validated again (so one bad history does not leave the others unexamined)."""
    vlib.build_harness()
    nchunk = max(1, min(14, len(docs) // 4))
    chunks = [docs[i::nchunk] for i in range(nchunk)]
    jobs = []
    for i, ch in enumerate(chunks):
        hp = os.path.join(wd, f"{label}.{i}.hist.json")
        with open(hp, "w") as f:
            json.dump(ch, f)
        jobs.append(["store-run", hp, os.path.join(wd, f"{label}.{i}.scr"), os.path.join(wd, f"{label}.{i}.ndjson")])
    if props == "C04":
        os.environ["VH_SETSUM"] = "1"
    crashed = [r for r in run_vh_parallel(jobs, timeout=900) if r.get("crashed")]
    os.environ.pop("VH_SETSUM", None)
    import concurrent.futures
    import re

    def work(i):
        tp = os.path.join(wd, f"{label}.{i}.ndjson")
        lines = []
        if os.path.exists(tp):
            for ln in open(tp, errors="replace").read().splitlines():
                try:
                    json.loads(ln)          # a process that died mid-write leaves a torn last line
                    lines.append(ln)
                except Exception:
                    break
        by_run = {d["run"]: d for d in chunks[i]}
        fails = []
        stats = {"states": 0, "generated": 0, "events": 0, "runs_ok": 0, "unexamined": 0}
        rnd = 0
        while True:
            cur = os.path.join(wd, f"{label}.{i}.r{rnd}.ndjson")
            with open(cur, "w") as f:
                f.write("\n".join(lines) + ("\n" if lines else ""))
            if not lines:
                break
            info, r = validate(wd, f"{label}.{i}.r{rnd}", cur, devs)
            for dname in re.findall(r'"DEV-USED",\s*"([^"]+)"', open(r.out, errors="replace").read()):
                stats.setdefault("devs", set()).add(dname)
            stats["states"] += info["states"]
            stats["generated"] += info["generated"]
            runs_here = [json.loads(l)["run"] for l in lines if '"ev":"open"' in l]
            if info["accepted"]:
                stats["events"] += len(lines)
                stats["runs_ok"] += len(runs_here)
                break
            at = info["matched"]
            # the run containing line `at` (0-based index of the first unmatched line)
            start = at
            while start > 0 and '"ev":"open"' not in lines[start]:
                start -= 1
            end = at + 1
            while end < len(lines) and '"ev":"open"' not in lines[end]:
                end += 1
            run = json.loads(lines[start])["run"]
            guard = None
            txt = open(r.out, errors="replace").read()
            m = re.findall(r'"GUARD-FAILED",\s*"([^"]+)"', txt)
            if m:
                guard = m[-1]
            fails.append({"doc": by_run.get(run), "matched": at - start, "violated": info["violated"], "guard": guard,
                          "event": json.loads(lines[at]) if at < len(lines) else None})
            # everything before `start` was accepted
            stats["events"] += start
            stats["runs_ok"] += sum(1 for l in lines[:start] if '"ev":"open"' in l)
            lines = lines[end:]
            rnd += 1
            if len(fails) >= max_fail_per_chunk:
                stats["unexamined"] += sum(1 for l in lines if '"ev":"open"' in l)
                break
        return fails, stats

    failures = [{"doc": c["inflight"], "matched": None, "violated": None, "guard": f"the store process died (rc={c['rc']})",
                 "event": {"stderr": c["stderr"][-300:]}} for c in crashed]
    with concurrent.futures.ThreadPoolExecutor(max_workers=12) as ex:
        for fails, st in ex.map(work, range(len(chunks))):
            failures += fails
            out.states += st["states"]
            out.transitions += st["generated"]
            out.traces += st["runs_ok"]
            out.extra["events_validated"] = out.extra.get("events_validated", 0) + st["events"]
            for dname in st.get("devs", ()):
                out.extra.setdefault("deviations_exercised", [])
                if dname not in out.extra["deviations_exercised"]:
                    out.extra["deviations_exercised"].append(dname)
            if st["unexamined"]:
                out.extra["runs_unexamined_after_failures"] = out.extra.get("runs_unexamined_after_failures", 0) + st["unexamined"]
    return failures


def summarize_event(ev):
    if ev is None:
        return "?"
    keep = {k: ev[k] for k in ("ev", "op", "i", "err", "gets", "scan", "rscan", "verdict", "obs", "did") if k in ev}
    return json.dumps(keep)[:500]


PROPERTY_OF_FAILURE = {
    # which property a rejected step / violated invariant speaks to (others are still reported under the check that ran)
    "InvReadLatest": "C01", "InvScan": "C03", "InvNoLoss": "C05", "InvNoDup": "C04",
}


def design_model(out, wd, thorough):
    """A: MC_Tree (writes, flush, selector with trivial moves / compute_bounds / expand, cuts, GC, no reopen: the open
    recovery finding is handled on traces) exhaustively at small scope, plus the witness state of the
    expand_compaction defect as positive and negative control."""
    inv = ["ReadLatest", "ScanOk", "Conserved", "NoDup", "GcSafe", "ReadAtAnyTs", "SelectableSafe"]
    consts = {"K": 2, "MaxWrites": 4 if not thorough else 5, "NL": 3, "MaxFiles": 5 if not thorough else 6, "MaxInputs": 3, "MaxOuts": 2, "GcVersions": 1,
              "MaxReopen": 0, "Emit": False, "Dev": set()}
    r = run_tlc("MC_Tree", cfg_text(constants=consts, invariants=inv, properties=["ReadsAtAnyTsKept"], constraints=["Bounded"], view="View"), wd, "mctree",
                workers=8, timeout=3000, heap="8g")
    if not r.ok():
        raise ToolError(f"TLC MC_Tree: violated={r.violated} error={r.error} ({r.out})")
    out.add_tlc("MC_Tree_design_model", r, {k: v for k, v in consts.items() if k != "Dev"})
    wc = {"K": 3, "MaxWrites": 7, "NL": 4, "MaxFiles": 9, "MaxInputs": 4, "MaxOuts": 2, "GcVersions": 2, "MaxReopen": 0, "Emit": False}
    r = run_tlc("MC_Tree", cfg_text(init="WitnessInit", next_="MCNext", constants=dict(wc, Dev=set()), invariants=["ReadLatest", "Conserved", "NoDup", "ReadAtAnyTs", "SelectableSafe"],
                                    constraints=["Bounded"]), wd, "mctree_w", workers=4, timeout=900)
    if not r.ok():
        raise ToolError(f"TLC MC_Tree witness: violated={r.violated} error={r.error} ({r.out})")
    out.add_tlc("MC_Tree_expand_witness", r, wc)
    rn = run_tlc("MC_Tree", cfg_text(init="WitnessInit", next_="MCNext", constants=dict(wc, Dev={"ExpandAddsUncoveredSst"}), invariants=["ReadLatest", "ReadAtAnyTs"],
                                     constraints=["Bounded"]), wd, "mctree_wneg", workers=4, timeout=900)
    if not rn.violated:
        raise ToolError("negative control failed: expand_compaction as found should lose the latest read from the witness state")
    out.extra["negative_controls"] = [f"ExpandAddsUncoveredSst (witness state) -> {rn.violated}"]


def check_store(prop, replay=None):
    out = Outcome(prop)
    wd = vlib.workdir()
    devs = vlib.open_deviations({"C01", "C03", "C04", "C05", "C08"})
    rng = random.Random(vlib.seed() * 7919 + {"C01": 1, "C03": 3, "C04": 4, "C05": 5, "C08": 8}.get(prop, 0))
    if replay:
        body = json.load(open(replay))
        docs = [body["doc"]]
    else:
        n = 40 if vlib.tier() == "quick" else 400
        nops = 60 if vlib.tier() == "quick" else 120
        docs = [gen_history(rng, i, "kvs", nops, prop) for i in range(n)]
        # tree-mode histories (ingests of whole tables) stay at 60 operations in both tiers: the cost of validating one grows
        # faster than its length (a 120-operation one took TLC 10-17 minutes, a chunk with five of them ran into TLC's
        # 30-minute checkpoint and beyond the time-out); the thorough tier has ten times as many of them instead
        docs += [gen_history(rng, n + i, "tree", min(nops, 60), prop) for i in range(n // 4)]
        docs += regression_histories()
    if prop in ("C01", "C05") and not replay:
        design_model(out, wd, vlib.tier() != "quick")
    failures = run_and_validate(out, wd, docs, "drv", devs, prop)
    for f in failures:
        path = replay or vlib.save_replay(prop, "store-history", {"doc": f["doc"], "matched": f["matched"], "guard": f.get("guard"),
                                                                  "violated": f["violated"], "event": f["event"]})
        out.violation(path, f"violated={f['violated']} guard={f.get('guard')} at event {f['matched']}: {summarize_event(f['event'])}")
    for k in vlib.load_known():
        if k["status"] == "open" and k.get("deviation") in out.extra.get("deviations_exercised", []):
            out.known(k["id"], f"{k['deviation']}: {k['what'][:200]}")
    out.samples = [json.dumps(d, separators=(",", ":"))[:600] for d in docs[:2]]
    out.extra["histories"] = len(docs)
    out.extra["rule"] = ("seeded random histories of put/del/batch/flush/compact-step/reopen/verify/scan on the real store "
                         "(kvs and tree/ingest modes, option grid, 3 key shapes), each validated event by event by TLC "
                         "against Trace_Tree with invariants " + ", ".join(INVARIANTS))
    return out.finish("model_checking", ASSUMPTIONS)


ASSUMPTIONS = [
    "sequential driver: flushes and compaction steps are placed by hook H1 (single-step); concurrency is C06/C07/C20",
    "a batch names each key once; ingested SSTs carry timestamps above everything already in the tree",
    "file identity is the first 16 hex digits of the setsum",
    "value identity is carried in the value bytes (padding verified)",
]


def regression_histories():
    p = os.path.join(vlib.VERIF, "regress", "store_histories.json")
    if os.path.exists(p):
        return json.load(open(p))
    return []


def check_C01(replay=None):
    return check_store("C01", replay)


def check_C03(replay=None):
    return check_store("C03", replay)


def check_C05(replay=None):
    return check_store("C05", replay)


def gen_tamper_history(rng, i):
    nkeys = rng.choice([2, 3])
    opts = {"memtable-size-bytes": 1 << 26, "max-compaction-files": rng.choice([2, 3, 64]),
            "l0-mandatory-compaction-threshold-files": rng.choice([1, 2]), "mani-log-rollover-ratio": rng.choice([0, 1, 1])}
    ops = []
    vid = 0
    for rnd in range(rng.randint(3, 5)):
        for _ in range(rng.randint(1, 3)):
            vid += 1
            ops.append(["put", rng.randint(1, nkeys), vid] if rng.random() < 0.8 else ["del", rng.randint(1, nkeys)])
        ops.append(["flush"])
        ops += [["compact"]] * 18
        if rng.random() < 0.4:
            ops.append(["reopen"])
    ops += [["verify"], ["reopen"], ["compact"], ["reopen"]]
    return {"run": i, "mode": "kvs", "opts": opts, "keyset": "plain", "nkeys": nkeys, "pad": 0, "ops": ops}


def check_C04(replay=None):
    prop = "C04"
    out = Outcome(prop)
    wd = vlib.workdir()
    devs = vlib.open_deviations({"C01", "C03", "C04", "C05", "C08"})
    rng = random.Random(vlib.seed() * 7919 + 4)
    thorough = vlib.tier() != "quick"
    if replay:
        body = json.load(open(replay))
        docs = [body["doc"]]
    else:
        n = 30 if not thorough else 300
        docs = [gen_history(rng, i, "kvs", 50 if not thorough else 110, "C05") for i in range(n)]
        # frequent manifest roll-overs in half of them, so that fragments chain many times
        for d in docs[::2]:
            d["opts"]["mani-log-rollover-ratio"] = rng.choice([0, 1])
        # pinned histories in which a compaction re-creates one of its inputs (one edit removes and adds the same file)
        docs += regression_histories()
    # concurrent histories: several threads ingesting into a stalling tree against running compaction threads;
    # afterwards every key must read back and the verifier must accept the history (Trace_Stall End guards)
    if not replay or "doc" in body and "ingesters" in body["doc"]:
        import p_stall
        if replay:
            idocs = [body["doc"]]
        else:
            idocs = [{"ingesters": ing, "compactors": comp, "iters": 50, "nkeys": nk, "pad": 0, "yield_seed": rng.randrange(1, 1 << 30), "timeout": 90,
                      "opts": {"l0-write-stall-threshold-files": stall, "l0-mandatory-compaction-threshold-files": 1, "max-compaction-files": 16}}
                     for (ing, comp, nk, stall) in [(2, 1, 3, 2), (4, 2, 2, 2), (3, 1, 1000000, 3)] + ([(rng.choice([2, 4]), rng.choice([1, 3]), rng.choice([2, 8]), rng.choice([2, 3])) for _ in range(12)] if thorough else [])]
        p_stall.run_ingest_stress(out, wd, idocs, prop, "c4ing")
        if replay:
            return out.finish("model_checking", [])
    failures = run_and_validate(out, wd, docs, "acct", devs, prop)
    for f in failures:
        path = replay or vlib.save_replay(prop, "store-history", {"doc": f["doc"], "matched": f["matched"], "guard": f.get("guard"),
                                                                  "violated": f["violated"], "event": f["event"]})
        out.violation(path, f"violated={f['violated']} guard={f.get('guard')} at event {f['matched']}: {summarize_event(f['event'])}")
    # rejection half
    if not replay:
        tdocs = [gen_tamper_history(rng, i) for i in range(4 if not thorough else 24)]
        jobs = []
        for i, d in enumerate(tdocs):
            hp = os.path.join(wd, f"tamper{i}.json")
            json.dump([d], open(hp, "w"))
            jobs.append(["store-tamper", hp, os.path.join(wd, f"tscr{i}"), os.path.join(wd, f"tamper{i}.ndjson")])
        res = run_vh_parallel(jobs, timeout=1800)
        for i, x in enumerate(res):
            for v in x.get("violations", []):
                out.violation(v["replay"], json.dumps(v["mismatch"])[:300])
            if x.get("crashed"):
                continue
            tp = os.path.join(wd, f"tamper{i}.ndjson")
            r = run_tlc("Trace_Tamper", cfg_text(spec="TraceSpec", postcondition="TraceAccepted"), wd, f"ttamper{i}", workers=1, timeout=900,
                        dfs=True, heap="2g", env_extra={"TRACE": tp})
            text = open(r.out, errors="replace").read()
            nlines = sum(1 for _ in open(tp))
            out.states += r.distinct
            out.transitions += r.generated
            import re
            m = re.search(r'"matched", (\d+), "of", (\d+)', text)
            if m or r.distinct < nlines + 1:
                if r.error and not m:
                    raise ToolError(f"TLC Trace_Tamper: {r.error} ({r.out})")
                g = re.findall(r'"GUARD-FAILED",\s*"([^"]+)"', text)
                lines = open(tp).read().splitlines()
                at = int(m.group(1)) if m else 0
                path = vlib.save_replay(prop, "tamper", {"doc": tdocs[i], "guard": g[-1] if g else None, "event": json.loads(lines[at]) if at < len(lines) else None})
                out.violation(path, f"tamper: guard={g[-1] if g else None} event={lines[at][:200] if at < len(lines) else None}")
            else:
                out.traces += 1
                out.extra["tampers_checked"] = out.extra.get("tampers_checked", 0) + max(0, nlines - 1)
    for k in vlib.load_known():
        if k["status"] == "open" and k.get("deviation") in out.extra.get("deviations_exercised", []):
            out.known(k["id"], f"{k['deviation']}: {k['what'][:200]}")
    out.samples = [json.dumps(d, separators=(",", ":"))[:600] for d in docs[:2]]
    out.extra["rule"] = ("store histories validated against Trace_Tree with setsum accounting on every manifest transaction (Setsum.tla column "
                         "arithmetic on the logged digests and per-entry hashes); then one altered hex digit per recorded digest per transaction "
                         "of every verifier-processed fragment, verdicts validated against Trace_Tamper")
    return out.finish("model_checking", ASSUMPTIONS + ["digests are handed to TLC as eight columns of two 16-bit limbs; per-entry hashes are computed by sst::Setsum on single entries (SHA3 uninterpreted)"])


def check_C07(replay=None):
    """sequential half of C07 (held cursors across flush / compaction / GC / verifier passes); the
    concurrent half (scanners iterating while flush and compaction threads run) is in p_conc."""
    import p_conc
    return p_conc.check_C07(replay)
