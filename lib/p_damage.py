"""C09 — damage to ssts, logs and manifests is detected or harmless (spec/Damage.tla, MC_Damage.tla, Trace_Damage.tla)."""
import json
import os
import random
import re
import vlib
from vlib import Outcome, ToolError, cfg_text, run_tlc, run_vh_parallel

PROP = "C09"
ASSUMPTIONS = [
    "file level: one file at a time through Sst::new + cursor walks + load + seek + setsum verification, LogIterator, ManifestIterator + Manifest::open; store level is C01/C02 plus the damage events of Trace_Tree",
    "CRC32C is trusted to catch every single-bit flip and single-byte overwrite (burst <= 8 bits): an undetected change of covered bytes would be reported as different data",
    "appended suffixes are zeros, 0xff, newlines or random bytes; replaying a copy of a valid record is an append, not damage",
    "truncation of an append-only file (log, manifest) may end ok with an exact prefix (what survives is decided by C12 / C13)",
    "sst summary fields of the unchecksummed final block (setsum, smallest/biggest timestamp as returned by Sst::metadata) are not judged at file level; the setsum is judged by the verify operation",
    "big logs (> 1 MiB, split frames and padding): the class grid of MC_Damage plus seeded offsets, not every offset",
    "unbounded allocation: an allocation failure aborts the harness, which is reported as a violation with the in-flight case; sizes are bounded by TABLE_FULL_SIZE by construction of the readers",
]


def grid(wd):
    r = run_tlc("MC_Damage", cfg_text(invariants=["EmitLine"]), wd, "grid", workers=4, timeout=600)
    if not r.ok():
        raise ToolError(f"TLC MC_Damage: {r.violated} {r.error} ({r.out})")
    cases = {"sst": [], "log": [], "mani": []}
    for line in open(r.out, errors="replace"):
        if line.startswith('<<"DMG"'):
            m = re.match(r'<<"DMG", "(.*)">>\s*$', line)
            rec = json.loads(json.loads('"' + m.group(1) + '"'))
            cases[rec["file"]].append({"dmgs": [rec["dmg"]]})
    return r, cases


def builds(rng, thorough):
    b = []
    # ssts: one small block; several blocks; tombstone-heavy; tiny restart interval
    b.append(("sst", {"nkeys": 6, "versions": 2, "vlen": 12, "block": 4096, "seed": rng.randrange(1, 1 << 30)}, "sweep"))
    b.append(("sst", {"nkeys": rng.choice([40, 60]), "versions": 2, "vlen": 100, "block": 1024, "seed": rng.randrange(1, 1 << 30)}, "grid"))
    b.append(("sst", {"nkeys": 30, "versions": 3, "vlen": 40, "block": 512, "restart": 2, "seed": rng.randrange(1, 1 << 30)}, "grid"))
    # logs: small (every offset), and crossing 1 MiB boundaries (split frames, padding)
    b.append(("log", {"sizes": [rng.choice([60, 100, 130]), rng.choice([200, 300]), 50, rng.choice([16, 40])]}, "sweep"))
    # a few bytes left before the first boundary (zero padding), then a frame split over the second one
    b.append(("log", {"sizes": [rng.choice([500000, 640000]), 1, 5000, 200, 700000, 600000, 120], "pad_before_boundary": rng.choice([3, 9, 19])}, "grid"))
    # manifests
    b.append(("mani", {"edits": rng.choice([3, 5]), "seed": rng.randrange(1, 1 << 30)}, "sweep"))
    b.append(("mani", {"edits": 12, "seed": rng.randrange(1, 1 << 30)}, "grid"))
    if thorough:
        for _ in range(6):
            b.append(("sst", {"nkeys": rng.choice([3, 10, 25]), "versions": rng.choice([1, 2, 4]), "vlen": rng.choice([0, 8, 300]), "block": rng.choice([256, 4096]),
                              "restart": rng.choice([1, 4, 16]), "seed": rng.randrange(1, 1 << 30)}, "sweep"))
            b.append(("log", {"sizes": [rng.choice([16, 60, 127, 128, 300]) for _ in range(rng.randint(1, 6))]}, "sweep"))
            b.append(("mani", {"edits": rng.choice([1, 2, 7]), "seed": rng.randrange(1, 1 << 30)}, "sweep"))
    return b


def check(replay=None):
    out = Outcome(PROP)
    wd = vlib.workdir()
    vlib.build_harness()
    rng = random.Random(vlib.seed() * 6007 + 9)
    thorough = vlib.tier() != "quick"
    r, classes = grid(wd)
    out.add_tlc("MC_Damage_grid", r, {"classes": {k: len(v) for k, v in classes.items()}})
    docs = []
    if replay:
        docs = [json.load(open(replay))["doc"]]
    else:
        for (kind, build, mode) in builds(rng, thorough):
            doc = {"file": kind, "build": build, "seed": rng.randrange(1, 1 << 30), "cases": list(classes[kind])}
            # appended suffixes
            for fill in ("zero", "ff", "nl", "random"):
                for n in (1, 8, 64):
                    doc["cases"].append({"dmgs": [{"kind": "extend", "n": n, "fill": fill}]})
            # runs of 2..9 equal bytes over the regions no checksum covers (length and size fields, offsets, digests)
            for rk in {"sst": ["final", "trailer"], "log": ["hlen", "header", "pad"], "mani": ["crc", "sep", "nl", "sepnl"]}[kind]:
                for which in ("first", "last"):
                    for pos in ("first", "second", "mid"):
                        for byte in (255, 128, 0, 127):
                            for run in (2, 3, 4, 9):
                                for fr in (["whole", "first", "second"] if kind == "log" and rk != "pad" else [""]):
                                    doc["cases"].append({"dmgs": [{"kind": "over", "rkind": rk, "frame": fr, "which": which, "pos": pos, "byte": byte, "run": run}]})
            # crafted length fields (a short sequence of byte overwrites): the largest size a frame header can hold, trailer offsets
            if kind == "log":
                for fr in ("whole", "first", "second"):
                    for which in ("first", "mid", "last"):
                        doc["cases"].append({"dmgs": [{"kind": "craft", "what": "log-size-max", "frame": fr, "which": which}]})
            if kind == "mani":
                # valid multi-byte UTF-8 sequences across the boundary between checksum digits and payload
                for rk, pos in (("crc", "last"), ("crc", "penult"), ("crc", "first"), ("payload", "first"), ("sep", "last"), ("sep", "first")):
                    for which in ("first", "mid", "last"):
                        for patch in ([0xC3, 0xA9], [0xE2, 0x82, 0xAC], [0xF0, 0x9F, 0x98, 0x80]):
                            doc["cases"].append({"dmgs": [{"kind": "over", "rkind": rk, "which": which, "pos": pos, "bytes": patch}]})
            if kind == "sst":
                for v in ("max", "size", "size+1", "zero", "one", "mid"):
                    doc["cases"].append({"dmgs": [{"kind": "craft", "what": "sst-trailer", "value": v}]})
            # short sequences of damage: two class-based damages at once
            for _ in range(60 if not thorough else 400):
                a, b2 = rng.choice(classes[kind]), rng.choice(classes[kind])
                doc["cases"].append({"dmgs": [a["dmgs"][0], b2["dmgs"][0]]})
            if mode == "sweep":
                bits = rng.sample(range(8), 2) if not thorough else list(range(8))
                doc["sweep"] = {"bits": bits, "bytes": [0, 255] if not thorough else [0, 255, 10, 128, 256], "stride": 1, "trunc": True}
            else:
                # seeded offsets over the whole file (absolute offsets past the end are skipped by the harness)
                for _ in range(300 if not thorough else 3000):
                    off = rng.randrange(0, 1 << 22) if kind == "log" else rng.randrange(0, 1 << 14)
                    doc["cases"].append({"dmgs": [{"kind": rng.choice(["flip", "flip", "over", "trunc"]), "off": off, "len": off, "bit": rng.randrange(8), "byte": rng.randrange(257)}]})
            docs.append(doc)
    if not replay:
        # store level: one file of a closed store damaged, then open + every key + full scan + verifier
        for sb in ([{"nkeys": 8, "rounds": 4, "vlen": 40, "unflushed": True, "opts": {}},
                    {"nkeys": 12, "rounds": 5, "vlen": 600, "unflushed": False, "opts": {"sst-target-block-size": 1024}}]
                   + ([{"nkeys": rng.choice([4, 20]), "rounds": rng.choice([2, 6]), "vlen": rng.choice([10, 200]), "unflushed": rng.random() < 0.5, "opts": {}} for _ in range(6)] if thorough else [])):
            sb["seed"] = rng.randrange(1, 1 << 30)
            cases = []
            for target in ("sst", "mani", "log"):
                pool = [c for c in classes[target] if target == "sst" or c["dmgs"][0]["kind"] != "trunc"]
                for c in (rng.sample(pool, 150) if not thorough else pool):
                    cases.append({"target": target, "file_index": rng.randrange(8), "dmgs": c["dmgs"]})
                for _ in range(40 if not thorough else 400):
                    off = rng.randrange(0, 2000)
                    cases.append({"target": target, "file_index": rng.randrange(8),
                                  "dmgs": [{"kind": rng.choice(["flip", "over"] + (["trunc"] if target == "sst" else [])), "off": off, "len": off, "bit": rng.randrange(8), "byte": rng.randrange(257)}]})
            # every byte of the unchecksummed final block and trailer of two ssts, a few values each
            for fi in (0, rng.randrange(1, 8)):
                for rk in ("final", "trailer"):
                    for k in range(0, 110):
                        for byte in (rng.choice([0, 255]), rng.randrange(256)):
                            cases.append({"target": "sst", "file_index": fi, "dmgs": [{"kind": "over", "rkind": rk, "which": "first", "pos_index": k, "byte": byte}]})
                        cases.append({"target": "sst", "file_index": fi, "dmgs": [{"kind": "flip", "rkind": rk, "which": "first", "pos_index": k, "bit": rng.randrange(8)}]})
            for fill in ("zero", "random"):
                cases.append({"target": "sst", "file_index": rng.randrange(8), "dmgs": [{"kind": "extend", "n": rng.choice([1, 8, 64]), "fill": fill}]})
            docs.append({"file": "store", "build": sb, "seed": rng.randrange(1, 1 << 30), "cases": cases})
    jobs = []
    for i, d in enumerate(docs):
        dp = os.path.join(wd, f"dmg{i}.json")
        json.dump(d, open(dp, "w"))
        jobs.append(["damage-run", dp, os.path.join(wd, f"dmg{i}.ndjson"), os.path.join(wd, f"dmgscr{i}")])
    res = run_vh_parallel(jobs, timeout=1800)
    seen = {}
    for i, x in enumerate(res):
        for v in x.get("violations", []):
            out.violation(v["replay"], json.dumps(v["mismatch"])[:300])
        if x.get("crashed"):
            continue
        tp = os.path.join(wd, f"dmg{i}.ndjson")
        tr = run_tlc("Trace_Damage", cfg_text(spec="TraceSpec", constants={"Dev": set(vlib.open_deviations({PROP}))}, postcondition="TraceAccepted"), wd, f"tdmg{i}", workers=1, timeout=1800, dfs=True, heap="4g",
                     env_extra={"TRACE": tp})
        text = open(tr.out, errors="replace").read()
        lines = open(tp).read().splitlines()
        out.states += tr.distinct
        out.transitions += tr.generated
        for dname in set(re.findall(r'"DEV-USED",\s*"([^"]+)"', text)):
            for k in vlib.load_known():
                if k["status"] == "open" and k.get("deviation") == dname and k["property"] == PROP:
                    ln = re.search(r'"DEV-USED",\s*"' + dname + r'",\s*"line",\s*(\d+)', text)
                    ex = json.loads(lines[int(ln.group(1)) - 1]) if ln else {}
                    out.known(k["id"], f"{dname}: {k['what'][:160]}: e.g. {json.dumps(ex.get('dmgs', [{}])[0])[:160]}")
        m = re.search(r'"matched", (\d+), "of", (\d+)', text)
        if m or tr.distinct < len(lines) + 1:
            if tr.error and not m:
                raise ToolError(f"TLC Trace_Damage: {tr.error} ({tr.out})")
            g = re.findall(r'"GUARD-FAILED",\s*"([^"]+)"', text)
            at = int(m.group(1)) if m else 0
            ev = json.loads(lines[at]) if at < len(lines) else None
            one = dict(docs[i], cases=[ev["spec"]]) if ev and ev.get("ev") == "case" else docs[i]
            one.pop("sweep", None)
            path = replay or vlib.save_replay(PROP, "damage", {"doc": one, "guard": g[-1] if g else None, "event": ev})
            out.violation(path, f"guard={g[-1] if g else None} file={docs[i]['file']} dmgs={json.dumps(ev['dmgs'] if ev else None)[:200]} ops={json.dumps(ev['ops'] if ev else None)[:300]}")
        else:
            out.traces += len(lines) - 2
        for ln in lines:
            if '"ev":"case"' in ln:
                e = json.loads(ln)
                key = f"{e['file']}{':' + e['target'] if 'target' in e else ''}/{e['dmgs'][0]['rkind']}/{e['dmgs'][0]['kind']}"
                noticed = any(o["status"] == "error" for o in e["ops"])
                s = seen.setdefault(key, [0, 0])
                s[0 if noticed else 1] += 1
    out.extra["cases_by_region_and_damage"] = {k: {"noticed": v[0], "silent_but_harmless": v[1]} for k, v in sorted(seen.items())}
    out.samples = [json.dumps({k: v for k, v in d.items() if k != "cases"}, separators=(",", ":"))[:300] for d in docs[:3]]
    out.extra["rule"] = ("for every file kind: the class grid of MC_Damage (region kind x which x position x damage), every offset of small files "
                         "(bit flips, byte overwrites, truncations), appended suffixes, and pairs of damages; every reader outcome validated against Damage.tla")
    return out.finish("model_checking", ASSUMPTIONS)
