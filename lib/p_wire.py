"""C15 — the protobuf codec round-trips and decodes arbitrary bytes safely (spec/Wire.tla, MC_Wire.tla)."""
import json
import os
import random
import struct
import vlib
from vlib import Outcome, ToolError, cfg_text, run_tlc, run_vh_parallel

PROP = "C15"
ASSUMPTIONS = [
    "one family of derived message types (harness/src/wire.rs: every scalar field type, bytes, fixed-size bytes, string, nested message, Option, Vec, enum with unit / tuple / named variants, Result::Ok) stands for 'every supported shape'; Result::Err(SError) values are not generated",
    "integer fields take values at every power-of-two boundary of their type, floats every special value; strings and repeated fields cross the 127/128 length-prefix boundary",
    "decoding arbitrary bytes: every truncation of a valid encoding, 200 seeded bit flips / overwrites / insertions per message, random strings; outcome value-or-error, never a panic",
    "over-long varints: a value equal to the original or an error is accepted (prototk rejects some non-canonical spellings in known fields); a different value is a violation",
    "field numbers stay below 2^28 (TLC integers are 32-bit)",
]


def bits(v, w):
    v &= (1 << w) - 1
    return [(v >> (w - 1 - i)) & 1 for i in range(w)]


def boundary(rng, w, signed):
    ks = [0, 1, 6, 7, 8, 13, 14, 15, 16, 20, 21, 27, 28, 31, 32, 34, 35, 42, 49, 56, 62, 63]
    k = rng.choice([x for x in ks if x < (w - 1 if signed else w)])
    v = rng.choice([(1 << k) - 1, 1 << k, (1 << k) + 1])
    if signed and rng.random() < 0.5:
        v = -v
    lo, hi = (-(1 << (w - 1)), (1 << (w - 1)) - 1) if signed else (0, (1 << w) - 1)
    if rng.random() < 0.15:
        v = rng.choice([lo, hi, lo + 1, hi - 1, 0, -1 if signed else 1])
    return max(lo, min(hi, v))


F32 = [0x00000000, 0x80000000, 0x7f800000, 0xff800000, 0x7fc00000, 0x7fa00001, 0xffc00123, 0x00000001, 0x007fffff, 0x00800000, 0x7f7fffff, 0x3f800000, 0xbf800000]
F64 = [0x0, 0x8000000000000000, 0x7ff0000000000000, 0xfff0000000000000, 0x7ff8000000000000, 0x7ff4000000000001, 0x1, 0x000fffffffffffff, 0x0010000000000000, 0x7fefffffffffffff,
       0x3ff0000000000000, 0x400921fb54442d18]
TEXTS = ["", "a", "hello", "\x00", "é", "\U0001F600", "x" * 127, "y" * 128, "z" * 300, "\x7f" * 3]


def text(rng):
    return list(rng.choice(TEXTS).encode())


def leaf(rng):
    return {"a": boundary(rng, 64, False), "s": text(rng), "z": boundary(rng, 32, True)}


def gen_all(rng, i):
    blob = lambda n: [rng.choice([0, 1, 127, 128, 255, rng.randrange(256)]) for _ in range(n)]
    ch = rng.choice(["One", "Text", "Sub", "Named", "Nothing"])
    chv = {"One": boundary(rng, 64, True), "Text": text(rng), "Sub": leaf(rng), "Named": {"p": boundary(rng, 64, False), "q": blob(rng.choice([0, 1, 5, 130]))}, "Nothing": 0}[ch]
    v = {"i32": boundary(rng, 32, True), "i64": boundary(rng, 64, True), "u32": boundary(rng, 32, False), "u64": boundary(rng, 64, False),
         "s32": boundary(rng, 32, True), "s64": boundary(rng, 64, True), "b": rng.choice([0, 1]), "fx32": boundary(rng, 32, False), "fx64": boundary(rng, 64, False),
         "sfx32": boundary(rng, 32, True), "sfx64": boundary(rng, 64, True), "fl": rng.choice(F32), "db": rng.choice(F64),
         "by": blob(rng.choice([0, 1, 2, 127, 128, 129, 400])), "b16": blob(16), "b32": blob(32), "st": text(rng), "leaf": leaf(rng),
         "ou": rng.choice(["none", boundary(rng, 64, False)]), "os": rng.choice(["none", text(rng)]), "ol": rng.choice(["none", leaf(rng)]),
         "vu": [boundary(rng, 64, False) for _ in range(rng.choice([0, 1, 3]))], "vs": [text(rng) for _ in range(rng.choice([0, 1, 2]))],
         "vl": [leaf(rng) for _ in range(rng.choice([0, 1, 2]))], "ch": {"k": ch, "v": chv}, "res": {"k": "Ok", "v": leaf(rng)},
         "big": boundary(rng, 32, True), "huge": boundary(rng, 64, False)}
    if i == 0:   # everything zero / empty / absent
        v = {"i32": 0, "i64": 0, "u32": 0, "u64": 0, "s32": 0, "s64": 0, "b": 0, "fx32": 0, "fx64": 0, "sfx32": 0, "sfx64": 0, "fl": 0, "db": 0, "by": [], "b16": [0] * 16, "b32": [0] * 32,
             "st": [], "leaf": {"a": 0, "s": [], "z": 0}, "ou": "none", "os": "none", "ol": "none", "vu": [], "vs": [], "vl": [], "ch": {"k": "Nothing", "v": 0},
             "res": {"k": "Ok", "v": {"a": 0, "s": [], "z": 0}}, "big": 0, "huge": 0}
    if i == 1:   # every extreme
        v.update({"i32": -(1 << 31), "i64": -(1 << 63), "u32": (1 << 32) - 1, "u64": (1 << 64) - 1, "s32": -(1 << 31), "s64": -(1 << 63), "b": 1, "fx32": (1 << 32) - 1,
                  "fx64": (1 << 64) - 1, "sfx32": -(1 << 31), "sfx64": -(1 << 63), "big": (1 << 31) - 1, "huge": (1 << 64) - 1})
    return v


def leaf_fields(l):
    return [{"n": 1, "ty": "int", "bits": bits(l["a"], 64)}, {"n": 2, "ty": "bytes", "bytes": l["s"]}, {"n": 3, "ty": "sint", "bits": bits(l["z"], 64)}]


def fields_of(v):
    f = []
    I = lambda n, x: f.append({"n": n, "ty": "int", "bits": bits(x, 64)})
    S = lambda n, x: f.append({"n": n, "ty": "sint", "bits": bits(x, 64)})
    B = lambda n, x: f.append({"n": n, "ty": "bytes", "bytes": x})
    M = lambda n, sub: f.append({"n": n, "ty": "message", "sub": sub})
    I(1, v["i32"]); I(2, v["i64"]); I(3, v["u32"]); I(4, v["u64"]); S(5, v["s32"]); S(6, v["s64"]); I(7, v["b"])
    f.append({"n": 8, "ty": "fixed32", "bits": bits(v["fx32"], 32)}); f.append({"n": 9, "ty": "fixed64", "bits": bits(v["fx64"], 64)})
    f.append({"n": 10, "ty": "fixed32", "bits": bits(v["sfx32"], 32)}); f.append({"n": 11, "ty": "fixed64", "bits": bits(v["sfx64"], 64)})
    f.append({"n": 12, "ty": "fixed32", "bits": bits(v["fl"], 32)}); f.append({"n": 13, "ty": "fixed64", "bits": bits(v["db"], 64)})
    B(14, v["by"]); B(15, v["b16"]); B(16, v["b32"]); B(17, v["st"]); M(18, leaf_fields(v["leaf"]))
    if v["ou"] != "none": I(19, v["ou"])
    if v["os"] != "none": B(20, v["os"])
    if v["ol"] != "none": M(21, leaf_fields(v["ol"]))
    for x in v["vu"]: I(22, x)
    for x in v["vs"]: B(23, x)
    for x in v["vl"]: M(24, leaf_fields(x))
    k, cv = v["ch"]["k"], v["ch"]["v"]
    sub = {"One": lambda: [{"n": 1, "ty": "sint", "bits": bits(cv, 64)}], "Text": lambda: [{"n": 2, "ty": "bytes", "bytes": cv}],
           "Sub": lambda: [{"n": 3, "ty": "message", "sub": leaf_fields(cv)}],
           "Named": lambda: [{"n": 4, "ty": "message", "sub": [{"n": 1, "ty": "int", "bits": bits(cv["p"], 64)}, {"n": 2, "ty": "bytes", "bytes": cv["q"]}]}],
           "Nothing": lambda: [{"n": 5, "ty": "bytes", "bytes": []}]}[k]()
    M(25, sub)
    M(26, [{"n": 1, "ty": "message", "sub": leaf_fields(v["res"]["v"])}])
    S(300, v["big"]); I(134217727, v["huge"])
    return f


def tokens_of(field, o=""):
    """flat token stream of one top-level field; `o` marks the field's own token"""
    def rec(f, mark):
        if f["ty"] == "message":
            out = [{"k": "open"}]
            for g in f["sub"]:
                out += rec(g, "")
            out.append({"k": "close", "n": f["n"], "o": mark})
            return out
        t = {"k": "scalar", "n": f["n"], "ty": f["ty"], "o": mark}
        t["bits" if "bits" in f else "bytes"] = f.get("bits", f.get("bytes"))
        return [t]
    return rec(field, o)


def varint_cases(rng, thorough):
    cases = []
    for k in range(0, 65, 7):
        for d in (-1, 0, 1):
            x = (1 << k) + d
            if 0 <= x < (1 << 64):
                cases.append({"bits": bits(x, 64)})
    for x in (0, 1, (1 << 64) - 1, (1 << 63), (1 << 63) - 1, (1 << 32), (1 << 32) - 1):
        cases.append({"bits": bits(x, 64)})
    for _ in range(20 if not thorough else 400):
        cases.append({"bits": bits(rng.getrandbits(rng.choice([7, 14, 21, 35, 49, 56, 63, 64])), 64)})
    pats = [[], [0x80], [0xff], [0xff, 0xff], [0x80, 0x00], [0x80, 0x80, 0x00], [0x81, 0x80, 0x80, 0x80, 0x80, 0x80, 0x80, 0x80, 0x80, 0x00],
            [0xff] * 9 + [0x01], [0xff] * 9 + [0x7f], [0xff] * 9 + [0x02], [0x80] * 9 + [0x7e], [0xff] * 10, [0xff] * 10 + [0x01], [0x80] * 11 + [0x00], [0xff] * 8, [0xff] * 9,
            [0x00, 0xff], [0x7f, 0x80], [0x80] * 9 + [0x01, 0x55]]
    for p in pats:
        cases.append({"bytes": p})
    for _ in range(40 if not thorough else 600):
        n = rng.randrange(1, 12)
        cases.append({"bytes": [rng.choice([0x80, 0xff, 0x81, 0xfe]) for _ in range(n - 1)] + [rng.choice([0x00, 0x01, 0x7f, 0x02, 0x80])]})
    return cases


def check(replay=None):
    out = Outcome(PROP)
    wd = vlib.workdir()
    vlib.build_harness()
    rng = random.Random(vlib.seed() * 5003 + 15)
    thorough = vlib.tier() != "quick"
    if replay:
        body = json.load(open(replay))
        values = [{"id": 1, "all": body["all"]}] if "all" in body else []
        varints = [body["varint_case"]] if "varint_case" in body else [{"bits": bits(0, 64)}]
    else:
        values = [{"id": i + 1, "all": gen_all(rng, i)} for i in range(40 if not thorough else 400)]
        varints = varint_cases(rng, thorough)
    vp, rp = os.path.join(wd, "values.ndjson"), os.path.join(wd, "varints.ndjson")
    with open(vp, "w") as f:
        for v in values:
            f.write(json.dumps({"id": v["id"], "parts": [{"part": tokens_of(fl), "otag": tokens_of(fl, "tag"), "opay": tokens_of(fl, "lead")} for fl in fields_of(v["all"])]}) + "\n")
        if not values:
            f.write(json.dumps({"id": 0, "parts": []}) + "\n")
    with open(vp + ".all", "w") as f:
        for v in values:
            f.write(json.dumps(v) + "\n")
    with open(rp, "w") as f:
        for c in varints:
            f.write(json.dumps(c) + "\n")
    os.environ["VERIF_TLC_STACK"] = "512m"
    root = os.path.join(wd, "MCW.tla")
    with open(root, "w") as f:
        f.write("---- MODULE MCW ----\nEXTENDS MC_Wire\n")
        for n, v in enumerate(values):
            for j in range(len(fields_of(v["all"]))):
                for w in ("part", "otag", "opay"):
                    f.write(f'ASSUME PrintT(<<"WPART", ToJson([id |-> {v["id"]}, j |-> {j + 1}, w |-> "{w}", bytes |-> Enc(Values[{n + 1}].parts[{j + 1}].{w})])>>)\n')
        f.write("====\n")
    r = run_tlc(root, cfg_text(), wd, "wire", workers=1, timeout=3000, heap="8g",
                env_extra={"VALUES": vp, "VARINTS": rp})
    os.environ.pop("VERIF_TLC_STACK", None)
    if not r.ok():
        raise ToolError(f"TLC MC_Wire: violated={r.violated} error={r.error} ({r.out})")
    out.add_tlc("MC_Wire", r, {"messages": len(values), "varint_cases": len(varints)})
    # assemble the per-field lines into one record per message; varint lines pass through
    import re
    msgs = {}
    lines = []
    for line in open(r.out, errors="replace"):
        if line.startswith('<<"WPART"'):
            m = re.match(r'<<"WPART", "(.*)">>\s*$', line)
            rec = json.loads(json.loads('"' + m.group(1) + '"'))
            msgs.setdefault(rec["id"], {}).setdefault(rec["w"], {})[rec["j"]] = rec["bytes"]
        elif line.startswith('<<"WIRE"'):
            lines.append(line)
    for mid, parts in sorted(msgs.items()):
        n = len(parts["part"])
        rec = {"id": mid, "parts": [parts["part"][j] for j in range(1, n + 1)], "otag": [parts["otag"][j] for j in range(1, n + 1)], "opay": [parts["opay"][j] for j in range(1, n + 1)]}
        lines.append('<<"WIRE", ' + json.dumps(json.dumps(rec, separators=(",", ":"))) + '>>\n')
    files = []
    for k in range(8):
        fp = os.path.join(wd, f"wire.{k}.lines")
        with open(fp, "w") as f:
            f.writelines(lines[k::8])
        files.append(fp)
    res = run_vh_parallel([["wire-replay", f, vp + ".all"] for f in files], timeout=1800)
    for x in res:
        out.traces += x["evaluations"]
        out.extra["impl_observations_compared"] = out.extra.get("impl_observations_compared", 0) + x["steps"]
        for v in x["violations"]:
            body = {"all": v["all"], "mismatch": {k: v[k] for k in v if k != "all"}} if "all" in v else {"varint_case": {"bytes": v["varint"]}, "mismatch": v}
            path = replay or vlib.save_replay(PROP, "wire", body)
            out.violation(path, json.dumps({k: v[k] for k in v if k != "all"})[:400])
        for s in x["samples"][:1]:
            if len(out.samples) < 3:
                out.samples.append(json.dumps(s, separators=(",", ":"))[:300])
    out.extra["rule"] = ("every message of the universe encoded by Wire.tla and byte-compared with stack_pack (pack_sz = bytes written); decode(encode(v)) = v; an unknown field of each wire "
                         "type at every field boundary is skipped; over-long varints give the same value or an error; every varint pattern read by the fast and the slow path as "
                         "Wire.tla reads it; hostile inputs never panic")
    return out.finish("model_checking", ASSUMPTIONS)
