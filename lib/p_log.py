"""C12 — the log returns each batch once, in order; a torn tail loses only the tail (spec/Log.tla)."""
import json
import os
import random
import vlib
from vlib import Outcome, ToolError, cfg_text, run_tlc, run_vh_parallel

PROP = "C12"
BLOCK = 1 << 20
HMAX = 19
MAXB = BLOCK - 2 * HMAX

ASSUMPTIONS = [
    "CRC32C is uninterpreted: the reader model assumes the checksum of an intact frame matches (bit damage is C09)",
    "toy scale (BLOCK=20/24, HDRMAX=5/6, header 2..4 bytes) is exhaustive; real scale (2^20, 19, 9+varint) is evaluated on seeded size sequences aimed at block boundaries",
    "real-scale cuts: every byte within 64 of each frame/block boundary plus seeded samples, not every byte of a multi-megabyte file",
]


def vl(n):
    return 1 if n < 128 else 2 if n < 16384 else 3 if n < 2097152 else 4


def hdr(n):
    return 9 + vl(n)


def layout_end(sizes):
    """python twin of Log!Lengths, only used to AIM cases at boundaries (TLC is the oracle)."""
    w = 0
    ends = []
    for ln in sizes:
        while True:
            nb = (w // BLOCK + 1) * BLOCK
            if w + hdr(ln) + ln <= nb:
                w += hdr(ln) + ln
                break
            r = nb - w
            if r <= HMAX:
                w = nb
                continue
            f = r - HMAX
            w = nb + hdr(ln - f) + (ln - f)
            break
        ends.append(w)
    return ends


def boundary_case(rng, r, tail):
    """sizes [a, b] + tail such that exactly r bytes remain before the first 1 MiB boundary after b"""
    a = rng.randint(200000, 700000)
    b = BLOCK - r - (hdr(a) + a) - 12
    for _ in range(40):
        d = (BLOCK - r) - (hdr(a) + a + hdr(b) + b)
        if d == 0:
            break
        b += d
    if hdr(a) + a + hdr(b) + b != BLOCK - r or b < 16:
        return None
    return [a, b] + tail


def with_cuts(rng, sizes):
    ends = layout_end(sizes)
    total = ends[-1]
    cuts = set([0, total])
    marks = set(ends) | {k * BLOCK for k in range(1, total // BLOCK + 2)}
    for m in marks:
        for d in range(-40, 41):
            if 0 <= m + d <= total:
                cuts.add(m + d)
    for _ in range(60):
        cuts.add(rng.randint(0, total))
    return {"sizes": sizes, "cuts": sorted(cuts)}


def gen_cases(rng, thorough):
    cases = []
    for _ in range(3 if not thorough else 12):
        cases.append(with_cuts(rng, [rng.choice([16, 17, 100, 127, 128, 4000, 16383, 16384]) for _ in range(rng.randint(1, 6))]))
    rs = list(range(0, 26)) + [30, 40, 45, 50, 60, 100] if not thorough else list(range(0, 45)) + [60, 100, 127, 128, 1000, 20000]
    for r in rs:
        tails = [[rng.randint(16, 30)], [rng.randint(100000, MAXB)]]
        if thorough:
            tails += [[MAXB], [BLOCK], [20, 16], [BLOCK - 5, 16]]
        for tail in tails:
            sizes = boundary_case(rng, r, tail)
            if sizes:
                cases.append(with_cuts(rng, sizes))
    # a tail frame that ends exactly at, one short of, or one/two bytes past the boundary (the split decision's edge)
    edge_rs = [27, 31, 40, 64, 100, 150, 1000] + [rng.randint(28, 30000) for _ in range(2 if not thorough else 12)]
    if thorough:
        edge_rs += [20000, 16400, 16500, 140, 141, 142]
    for r in edge_rs:
        for delta in (-1, 0, 1, 2):
            t = next((t for t in range(max(16, r - 20), r + 4) if hdr(t) + t == r + delta), None)
            if t is None:
                continue
            sizes = boundary_case(rng, r, [t, 16])
            if sizes:
                cases.append(with_cuts(rng, sizes))
    return cases


def concurrent_appends(out, wd, rng, replay):
    """threads appending through ConcurrentLogBuilder under the syscall shim; Trace_LogConc validates durability at
    return, exactly-once / whole batches and real-time order."""
    import re
    import subprocess
    shim = os.path.join(vlib.VERIF, "shim", "shim.so")
    if replay:
        docs = [json.load(open(replay))["lcdoc"]]
    else:
        docs = [{"threads": t, "per": p, "big": b} for (t, p, b) in [(2, 30, 0), (4, 25, 0), (8, 20, 0), (3, 12, 30000), (16, 6, 0)]]
        if vlib.tier() != "quick":
            docs += [{"threads": rng.choice([2, 3, 5, 8, 12]), "per": rng.choice([10, 40, 80]), "big": rng.choice([0, 0, 20000, 30000])} for _ in range(25)]
    for i, d in enumerate(docs):
        dp, lp, op = os.path.join(wd, f"lc{i}.json"), os.path.join(wd, f"lc{i}.shim"), os.path.join(wd, f"lc{i}.out")
        root = os.path.join(wd, f"lcdir{i}")
        json.dump(d, open(dp, "w"))
        env = dict(os.environ, LD_PRELOAD=shim, SHIM_ROOT=root, SHIM_LOG=lp)
        p = subprocess.run([vlib.VH, "logconc-stress", dp, os.path.join(root, "log"), op], env=env, stdout=subprocess.PIPE, stderr=subprocess.PIPE, text=True, timeout=600)
        if p.returncode != 0 or not os.path.exists(op):
            path = vlib.save_replay(PROP, "logconc", {"lcdoc": d, "rc": p.returncode, "stderr": p.stderr[-400:]})
            out.violation(path, f"concurrent appends: harness died rc={p.returncode} {p.stderr[-200:]}")
            continue
        res = json.load(open(op))
        tp = os.path.join(wd, f"lc{i}.ndjson")
        n = 0
        with open(tp, "w") as f:
            f.write(json.dumps({"ev": "layout", "batch_end": res["batch_end"]}) + "\n")
            for line in open(lp):
                e = json.loads(line)
                if e["call"] == "mark":
                    f.write(json.dumps(e["mark"]) + "\n")
                elif e["call"] == "write" and e["path"] == "log" and e["ret"] == 0:
                    f.write(json.dumps({"ev": "write", "len": e["len"]}) + "\n")
                elif e["call"] in ("fdatasync", "fsync") and e["path"] == "log" and e["ret"] == 0:
                    f.write(json.dumps({"ev": "sync"}) + "\n")
                else:
                    continue
                n += 1
            f.write(json.dumps({"ev": "final", "runs": res["runs"], "end": res["end"], "size": res["size"], "threads_died": res["threads_died"], "total": res["total"]}) + "\n")
        r = run_tlc("Trace_LogConc", cfg_text(spec="TraceSpec", postcondition="TraceAccepted"), wd, f"tlc{i}", workers=1, timeout=900, dfs=True, heap="3g", env_extra={"TRACE": tp})
        text = open(r.out, errors="replace").read()
        out.states += r.distinct
        out.transitions += r.generated
        m = re.search(r'"matched", (\d+), "of", (\d+)', text)
        if m or r.distinct < n + 3:
            if r.error and not m:
                raise ToolError(f"TLC Trace_LogConc: {r.error} ({r.out})")
            g = re.findall(r'"GUARD-FAILED",\s*"([^"]+)"', text)
            lines = open(tp).read().splitlines()
            at = int(m.group(1)) if m else 0
            path = replay or vlib.save_replay(PROP, "logconc", {"lcdoc": d, "guard": g[-1] if g else None, "rejected_event": json.loads(lines[at]) if at < len(lines) else None})
            out.violation(path, f"concurrent appends: guard={g[-1] if g else None} event={lines[at][:200] if at < len(lines) else None}")
        else:
            out.traces += 1
            out.extra["concurrent_append_events"] = out.extra.get("concurrent_append_events", 0) + n


def check(replay=None):
    out = Outcome(PROP)
    wd = vlib.workdir()
    vlib.build_harness()
    rng = random.Random(vlib.seed() * 101 + 7)
    # A: exhaustive at toy scale
    toy = [(20, 5, 20, 3)] if vlib.tier() == "quick" else [(20, 5, 20, 4), (24, 6, 24, 3), (16, 4, 16, 4)]
    for (blk, hm, mb, n) in toy:
        consts = {"BLOCK": blk, "HDRMAX": hm, "Scale": "toy", "MaxB": mb, "N": n, "Emit": False}
        r = run_tlc("MC_Log", cfg_text(constants=consts, invariants=["InvRoundTrip", "InvTornTail", "InvOnlyTail", "InvWellFormed"]),
                    wd, f"toy{blk}_{n}", workers=12, timeout=3000)
        if not r.ok():
            raise ToolError(f"TLC toy: violated={r.violated} error={r.error} ({r.out})")
        out.add_tlc(f"toy_B{blk}_H{hm}_N{n}", r, consts)
    # B: real scale, TLC predicts layout and read outcomes; the implementation must agree
    if replay:
        body = json.load(open(replay))
        cases = [body["case"]] if "case" in body else []
    else:
        cases = gen_cases(rng, vlib.tier() != "quick")
    cp = os.path.join(wd, "cases.ndjson")
    with open(cp, "w") as f:
        for c in cases:
            f.write(json.dumps(c) + "\n")
    consts = {"BLOCK": BLOCK, "HDRMAX": HMAX, "Scale": "real", "MaxB": 0, "N": 0, "Emit": True}
    r = run_tlc("MC_Log", cfg_text(constants=consts, invariants=["InvRoundTrip", "InvWellFormed", "EmitLine"]), wd, "real",
                workers=8, timeout=3000, env_extra={"CASES": cp})
    if not r.ok():
        raise ToolError(f"TLC real: violated={r.violated} error={r.error} ({r.out})")
    out.add_tlc("real_scale_eval", r, {"BLOCK": BLOCK, "HDRMAX": HMAX})
    files, cnt = vlib.split_lines(r.out, "LOG", 8, wd, "log")
    res = run_vh_parallel([["log-replay", f, os.path.join(wd, f"scr{i}")] for i, f in enumerate(files)], timeout=1800)
    for x in res:
        out.traces += x["evaluations"]
        out.extra["impl_observations_compared"] = out.extra.get("impl_observations_compared", 0) + x["steps"]
        for v in x["violations"]:
            case = next((c for c in cases if c["sizes"] == v["sizes"]), {"sizes": v["sizes"], "cuts": []})
            path = replay or vlib.save_replay(PROP, "log", {"case": case, "mismatch": v["mismatch"]})
            out.violation(path, json.dumps(v)[:300])
        for s in x["samples"][:1]:
            if len(out.samples) < 3:
                out.samples.append(json.dumps(s, separators=(",", ":"))[:500])
    if not replay or "lcdoc" in json.load(open(replay)):
        concurrent_appends(out, wd, rng, replay)
    out.extra["rule"] = ("toy scale: every sequence of <=N batch sizes 1..BLOCK, every cut; real scale: seeded size sequences leaving "
                         "0..40 bytes before a 1 MiB boundary, cuts around every frame and block boundary")
    return out.finish("model_checking", ASSUMPTIONS)
