"""C14 — setsum algebra and definition (spec/Setsum.tla, spec/MC_Setsum.tla)."""
import hashlib
import json
import os
import random
import vlib
from vlib import Outcome, ToolError, cfg_text, run_tlc, run_vh_parallel

PROP = "C14"
LAWS = ["Commutes", "Associates", "Identity", "Inverse", "SubUndoes", "AddUndoes", "Closed", "RoundTrip"]

ASSUMPTIONS = [
    "SHA3-256 is outside the specification: item hashes are supplied as data by Python's hashlib (independent implementation)",
    "boundary analysis per prime: columns at 0,1,2,2^31,65535*2^16,p-2,p-1 and (through from_digest) p,p+1,2^32-1; interior values are covered only by the item-level runs",
    "equal digests are taken to mean equal multisets (collision resistance)",
]


def make_items(path, rng, n_extra):
    items = []
    def add(item, **kw):
        d = {"item": list(item), "hash": list(hashlib.sha3_256(bytes(item)).digest())}
        d.update(kw)
        items.append(d)
    add(b"")
    add(b"a")
    add(b"this is the first value")
    # framed entries of sst::Setsum::put / del
    for (k, ts, v) in [(b"k", 1, b"v"), (b"", 0, b""), (b"key\x00\xff", 2**30 + 5, None), (b"a" * 40, 7, b"x" * 100)]:
        framed = (bytes([8]) + k + ts.to_bytes(8, "little") + v) if v is not None else (bytes([9]) + k + ts.to_bytes(8, "little"))
        add(framed, key=list(k), ts=ts, value=(list(v) if v is not None else []), tomb=(v is None))
    # items whose SHA3-256 has a 32-bit word at or above its column's prime (found by search: ~1 in 5.6 million),
    # so that hash_to_state's conditional subtraction is exercised
    edge = json.load(open(os.path.join(vlib.VERIF, "lib", "setsum_edge_items.json")))
    for (name, _col, _word) in rng.sample(edge, 3):
        add(name.encode(), edge=True)
    for _ in range(n_extra):
        add(bytes(rng.randrange(256) for _ in range(rng.randrange(0, 70))))
    with open(path, "w") as f:
        for it in items:
            f.write(json.dumps(it) + "\n")
    return items


def check(replay=None):
    out = Outcome(PROP)
    wd = vlib.workdir()
    vlib.build_harness()
    devs = vlib.open_deviations({PROP})
    rng = random.Random(vlib.seed())
    # 1. algebra at column boundaries
    consts = {"Mode": "algebra", "Emit": True, "Dev": set(devs)}
    invs = ["EmitLine"] + (LAWS if not devs else [])
    r = run_tlc("MC_Setsum", cfg_text(constants=consts, invariants=invs, view="View"), wd, "algebra", workers=4, timeout=900)
    if not r.ok():
        raise ToolError(f"TLC algebra: violated={r.violated} error={r.error} ({r.out})")
    out.add_tlc("algebra", r, {"Dev": sorted(devs)})
    if devs:
        r2 = run_tlc("MC_Setsum", cfg_text(constants=dict(consts, Emit=False, Dev=set()), invariants=LAWS, view="View"),
                     wd, "algebra_ideal", workers=4, timeout=900)
        if not r2.ok():
            raise ToolError(f"TLC algebra_ideal: violated={r2.violated} error={r2.error}")
        out.add_tlc("algebra_ideal", r2)
    res = run_vh_parallel([["setsum-replay", r.out, "-", vlib.REPLAYS]])[0]
    collect(out, res, "algebra")
    # 2. multiset level over hashed items, 3 items at a time, every order of <= 6 inserts/removes
    rounds = 2 if vlib.tier() == "quick" else 12
    for rd in range(rounds):
        ipath = os.path.join(wd, f"items{rd}.ndjson")
        all_items = make_items(ipath, rng, 3)
        # TLC explores orders over a window of 3 items; rotate the window over the item list
        plain = [it for it in all_items if not it.get("edge")]
        edges = [it for it in all_items if it.get("edge")]
        window = [plain[(rd * 2) % len(plain)], plain[(rd * 2 + 1) % len(plain)], edges[rd % len(edges)]]
        wpath = os.path.join(wd, f"window{rd}.ndjson")
        with open(wpath, "w") as f:
            for it in window:
                f.write(json.dumps(it) + "\n")
        consts = {"Mode": "items", "Emit": True, "Dev": set(devs)}
        r = run_tlc("MC_Setsum", cfg_text(constants=consts, invariants=["EmitLine", "BagDetermines"], view="ViewOrders",
                                         constraints=["LenOk"]), wd, f"items{rd}", workers=4, timeout=900,
                    env_extra={"ITEMS": wpath})
        if not r.ok():
            raise ToolError(f"TLC items{rd}: violated={r.violated} error={r.error} ({r.out})")
        out.add_tlc(f"items{rd}", r)
        res = run_vh_parallel([["setsum-replay", r.out, wpath, vlib.REPLAYS]])[0]
        collect(out, res, f"items{rd}")
        res = run_vh_parallel([["setsum-replay", os.devnull, ipath, vlib.REPLAYS]])[0]   # framing of every item
        collect(out, res, f"framing{rd}")
    out.extra["exhaustive"] = True
    out.extra["rule"] = "every (prime, x, y[, z]) over the boundary table; every sequence of <=5 inserts/removes over 3 hashed items (multiplicity <= 2)"
    return out.finish("model_checking", ASSUMPTIONS)


def collect(out, res, label):
    out.traces += res["evaluations"]
    out.extra["impl_results_compared"] = out.extra.get("impl_results_compared", 0) + res["steps"]
    for v in res["violations"]:
        path = vlib.save_replay(PROP, "setsum", {"case": v})
        out.violation(path, json.dumps(v)[:400])
    for s in res["samples"][:1]:
        if len(out.samples) < 4:
            out.samples.append(json.dumps(s, separators=(",", ":"))[:500])
