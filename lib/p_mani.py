"""C13 — manifest edits are atomic and durable (spec/Trace_Mani.tla, shim, harness mani-*)."""
import concurrent.futures
import json
import os
import random
import shutil
import subprocess
import vlib
from vlib import Outcome, ToolError, cfg_text, run_tlc, log

PROP = "C13"
SHIM = os.path.join(vlib.VERIF, "shim", "shim.so")

POOL_PLAIN = ["aaaa", "bbbbbbbb", "cc", "5f63ab0c8379ff3e9949259182fbadd865c3524a218f1d8c3429a4f6222a2888",
              "bfd497a714ec665b23039a89cb2fc3b6e2c9ba8769678c43c5a3b1939fec4e52", "with space", "tab\there", "-dash", "+plus", "--------x"]
POOL_ODD = ["", "x", "café", "cr\r", "ÿþ", "a\x01b\x7f"]

ASSUMPTIONS = [
    "persistence model (a): every completed system call persists; (b): bytes written after a file's last successful fsync/fdatasync are lost, directory operations persist",
    "rename/link/unlink durability (directory fsync) is outside both models",
    "strings are Rust &str: every valid UTF-8 sequence without a newline",
    "crash points are the instants before each mutating system call seen by the LD_PRELOAD shim (write, fdatasync, link, unlink, rename, creat, mkdir)",
]


def gen_doc(rng, i, odd=False):
    pool = POOL_PLAIN + (POOL_ODD if odd else [])
    ops = []
    live = set()
    for _ in range(rng.randint(3, 8)):
        r = rng.random()
        if r < 0.78:
            e = {}
            adds = rng.sample(pool, rng.randint(0, 2))
            rms = [s for s in rng.sample(pool, rng.randint(0, 2))]
            if rng.random() < 0.3 and live:
                rms.append(rng.choice(sorted(live)))
            if adds:
                e["add"] = adds
            if rms:
                e["rm"] = sorted(set(rms))
            if rng.random() < 0.6:
                e["info"] = {rng.choice("IODL"): rng.choice(pool[:6] + (["" ] if odd else []))}
            live = (live - set(e.get("rm", []))) | set(e.get("add", []))
            ops.append(["apply", e])
        elif r < 0.88:
            ops.append(["reopen"])
        else:
            ops.append(["rollover"])
    return {"id": i, "ratio": rng.choice([0, 1, 2, 4, 1000, 1000]), "ops": ops, "odd": odd}


def shim_run(doc_path, root, logp, extra_env=None):
    env = dict(os.environ, LD_PRELOAD=SHIM, SHIM_ROOT=root, SHIM_LOG=logp)
    if extra_env:
        env.update(extra_env)
    p = subprocess.run([vlib.VH, "mani-run", doc_path, root], env=env, stdout=subprocess.PIPE, stderr=subprocess.PIPE, text=True, timeout=120)
    return p.returncode


def plain(args):
    p = subprocess.run([vlib.VH] + args, stdout=subprocess.PIPE, stderr=subprocess.PIPE, text=True, timeout=300)
    if p.returncode not in (0,):
        raise ToolError(f"vh {args[0]} rc={p.returncode}: {p.stderr[-300:]}")


def one_doc(wd, doc, faults):
    """Returns path of the combined trace for this doc and the number of runs in it."""
    d = os.path.join(wd, f"doc{doc['id']}")
    os.makedirs(d, exist_ok=True)
    dp = os.path.join(d, "doc.json")
    json.dump(doc, open(dp, "w"))
    root = os.path.join(d, "db")
    trace = os.path.join(d, "trace.ndjson")
    runs = 0
    # base run + cuts
    base_log = os.path.join(d, "base.ndjson")
    rc = shim_run(dp, root, base_log)
    if rc != 0:
        raise ToolError(f"mani-run base rc={rc}")
    ncalls = 0
    for line in open(base_log):
        j = json.loads(line)
        if j["call"] not in ("mark",):
            ncalls = max(ncalls, j["n"])
    plain(["mani-cuts", root, os.path.join(d, "scratch"), base_log, str(doc["ratio"])])
    with open(trace, "w") as out:
        out.write(open(base_log).read())
        runs += 1
        for n in range(1, ncalls + 1):
            for model in ("a", "b"):
                shutil.rmtree(root, ignore_errors=True)
                lp = os.path.join(d, "run.ndjson")
                if os.path.exists(lp):
                    os.remove(lp)
                rc = shim_run(dp, root, lp, {"SHIM_CRASH_AT": str(n), "SHIM_MODEL": model})
                if rc != 77:
                    raise ToolError(f"crash run n={n} rc={rc}")
                plain(["mani-recover", root, lp, str(doc["ratio"])])
                out.write('{"call":"reset","n":0}\n')
                out.write(open(lp).read())
                runs += 1
        if faults:
            for n in range(1, ncalls + 1):
                for errno in (5, 28):
                    shutil.rmtree(root, ignore_errors=True)
                    lp = os.path.join(d, "run.ndjson")
                    if os.path.exists(lp):
                        os.remove(lp)
                    rc = shim_run(dp, root, lp, {"SHIM_FAIL_AT": f"{n}:{errno}"})
                    with open(lp, "a") as f:
                        f.write('{"call":"crash","n":0,"model":"a"}\n')
                    plain(["mani-recover", root, lp, str(doc["ratio"])])
                    out.write('{"call":"reset","n":0}\n')
                    out.write(open(lp).read())
                    runs += 1
    shutil.rmtree(root, ignore_errors=True)
    return trace, runs


def validate(wd, name, trace):
    cfg = cfg_text(spec="TraceSpec", invariants=["NewestBackupRolledUp"], postcondition="TraceAccepted")
    r = run_tlc("Trace_Mani", cfg, wd, name, workers=1, timeout=1800, dfs=True, heap="3g", env_extra={"TRACE": trace})
    text = open(r.out, errors="replace").read()
    import re
    nlines = sum(1 for _ in open(trace))
    info = {"accepted": False, "matched": None, "guard": None, "violated": r.violated, "states": r.distinct, "generated": r.generated, "lines": nlines}
    m = re.search(r'"matched", (\d+), "of", (\d+)', text)
    if m:
        info["matched"] = int(m.group(1))
    g = re.findall(r'"GUARD-FAILED",\s*"([^"]+)"', text)
    if g:
        info["guard"] = g[-1]
    if r.violated:
        ls = re.findall(r"^/\\ l = (\d+)", text, re.M)
        if ls:
            info["matched"] = int(ls[-1]) - 1
    if r.error and info["matched"] is None:
        raise ToolError(f"TLC {name}: {r.error} ({r.out})")
    info["accepted"] = info["matched"] is None and not r.violated and r.distinct >= nlines + 1
    if not info["accepted"] and info["matched"] is None:
        raise ToolError(f"TLC {name}: not accepted, no position ({r.out})")
    return info


def check(replay=None):
    out = Outcome(PROP)
    wd = vlib.workdir()
    vlib.build_harness()
    rng = random.Random(vlib.seed() * 31 + 13)
    # A: the design model (apply = write, sync, acknowledge; roll-over in five steps; crash between any two steps
    # in persistence models a and b; reopen) with its negative controls
    inv = ["TypeOK", "Durable", "NothingInvented", "InSync", "ChainOnce", "ChainLinks"]
    bounds = {"MaxEdits": 3, "MaxRoll": 2, "MaxCrash": 2} if vlib.tier() == "quick" else {"MaxEdits": 4, "MaxRoll": 3, "MaxCrash": 3}
    r = vlib.run_tlc("Mani", vlib.cfg_text(constants=dict(bounds, Dev=set()), invariants=inv), wd, "mani_mc", workers=8, timeout=3000)
    if not r.ok():
        raise vlib.ToolError(f"TLC Mani: violated={r.violated} error={r.error} ({r.out})")
    out.add_tlc("Mani_design_model", r, bounds)
    for dev, want in (("RelinkAfterCrash", "ChainOnce"), ("AckBeforeSync", "Durable")):
        rn = vlib.run_tlc("Mani", vlib.cfg_text(constants={"MaxEdits": 3, "MaxRoll": 2, "MaxCrash": 2, "Dev": {dev}}, invariants=inv), wd, f"mani_neg_{dev}", workers=4, timeout=900)
        if rn.violated != want:
            raise vlib.ToolError(f"negative control failed: Mani.tla with {dev} should violate {want}, got {rn.violated} / {rn.error}")
    out.extra["negative_controls"] = ["RelinkAfterCrash -> ChainOnce (the interrupted roll-over found and fixed as adc7a41)", "AckBeforeSync -> Durable"]
    if replay:
        docs = [json.load(open(replay))["doc"]]
    else:
        n = 6 if vlib.tier() == "quick" else 40
        docs = [gen_doc(rng, i, odd=(i % 3 == 2)) for i in range(n)]
    faults = True

    def work(doc):
        trace, runs = one_doc(wd, doc, faults)
        info = validate(wd, f"mani{doc['id']}", trace)
        return doc, trace, runs, info

    with concurrent.futures.ThreadPoolExecutor(max_workers=10) as ex:
        results = list(ex.map(work, docs))
    for doc, trace, runs, info in results:
        out.states += info["states"]
        out.transitions += info["generated"]
        if info["accepted"]:
            out.traces += runs
            out.extra["events_validated"] = out.extra.get("events_validated", 0) + info["lines"]
        else:
            lines = open(trace).read().splitlines()
            at = info["matched"]
            # the run around the rejected line
            start = at
            while start > 0 and '"call":"reset"' not in lines[start]:
                start -= 1
            ctx = [json.loads(x) for x in lines[start:at + 1]][-12:]
            path = replay or vlib.save_replay(PROP, "mani", {"doc": doc, "guard": info["guard"], "violated": info["violated"], "context": ctx})
            out.violation(path, f"guard={info['guard']} violated={info['violated']} at line {at}: {json.dumps(ctx[-1])[:300]}")
    out.samples = [json.dumps(d)[:500] for d in docs[:2]]
    out.extra["rule"] = ("seeded edit sequences (adds, removes, re-adds, info updates, empty edits, reopen, explicit rollover; every third "
                         "with odd strings) on the real Manifest under the syscall shim: the fault-free run, a crash before every mutating "
                         "call in models (a) and (b), an injected EIO and ENOSPC at every call, and a cut of MANIFEST at every byte; each "
                         "recorded trace validated by TLC against Trace_Mani")
    return out.finish("model_checking", ASSUMPTIONS)
