"""C20 — writes keep completing (spec/Stall.tla, Trace_Stall.tla, Trace_Conc.tla watchdog)."""
import json
import os
import random
import re
import shutil
import vlib
from vlib import Outcome, ToolError, cfg_text, run_tlc, run_vh_parallel
import p_conc

PROP = "C20"
ASSUMPTIONS = [
    "no ranges are documented for the thresholds: the claim is made for 1 <= mandatory <= stall <= max_compaction_files (file counts); "
    "Stall.tla reports every other ordering in the grid as hazardous (evidence: hazardous_configurations) rather than as a violation",
    "Stall.tla abstracts the tree to the number of L0 files, pending deeper work and compactions in progress; an L0 compaction takes all L0 files",
    "weak fairness of every thread; the real runs use a watchdog (60-90 s) to declare a hang",
    "stalls that need tens of gigabytes (README) are out of reach of both",
]


def run_ingest_stress(out, wd, docs, prop, label="ing"):
    """LsmTree::ingest from several threads against running compaction threads; Trace_Stall validates progress,
    the read-back of every key and the verifier's verdict on the history."""
    jobs = []
    for i, d in enumerate(docs):
        dp = os.path.join(wd, f"{label}{i}.json")
        json.dump(d, open(dp, "w"))
        jobs.append(["ingest-stress", dp, os.path.join(wd, f"{label}db{i}"), os.path.join(wd, f"{label}{i}.ndjson")])
    os.environ["VERIF_JOBS"] = "4"
    res = run_vh_parallel(jobs, timeout=600)
    os.environ.pop("VERIF_JOBS", None)
    for i, x in enumerate(res):
        for v in x.get("violations", []):
            out.violation(v["replay"], json.dumps(v["mismatch"])[:300])
        if x.get("crashed"):
            continue
        tp = os.path.join(wd, f"{label}{i}.ndjson")
        r = run_tlc("Trace_Stall", cfg_text(spec="TraceSpec", postcondition="TraceAccepted"), wd, f"t{label}{i}", workers=1, timeout=900, dfs=True, heap="2g",
                    env_extra={"TRACE": tp})
        text = open(r.out, errors="replace").read()
        nlines = sum(1 for _ in open(tp))
        out.states += r.distinct
        out.transitions += r.generated
        m = re.search(r'"matched", (\d+), "of", (\d+)', text)
        if m or r.distinct < nlines + 1:
            if r.error and not m:
                raise ToolError(f"TLC Trace_Stall: {r.error} ({r.out})")
            g = re.findall(r'"GUARD-FAILED",\s*"([^"]+)"', text)
            lines = open(tp).read().splitlines()
            at = int(m.group(1)) if m else 0
            path = vlib.save_replay(prop, "ingest", {"doc": docs[i], "guard": g[-1] if g else None, "rejected_event": json.loads(lines[at]) if at < len(lines) else None})
            out.violation(path, f"ingest stress: guard={g[-1] if g else None} event={lines[at][:240] if at < len(lines) else None}")
        else:
            out.traces += 1
            out.extra["events_validated"] = out.extra.get("events_validated", 0) + nlines
        shutil.rmtree(os.path.join(wd, f"{label}db{i}"), ignore_errors=True)


def check(replay=None):
    out = Outcome(PROP)
    wd = vlib.workdir()
    vlib.build_harness()
    rng = random.Random(vlib.seed() * 2003 + 20)
    thorough = vlib.tier() != "quick"
    hazardous = []
    rng_grid = range(1, 4) if not thorough else range(1, 5)
    for stall in rng_grid:
        for mand in rng_grid:
            for maxf in rng_grid:
                for optional in (False, True):
                    sane = mand <= stall <= maxf
                    if not sane and optional:
                        continue
                    k = 2 if not thorough else 3
                    consts = {"K": k, "NI": stall + 2, "STALL": stall, "MAND": mand, "MAXF": maxf, "Optional": optional, "Dev": set()}
                    r = run_tlc("Stall", cfg_text(constants=consts, invariants=["ReliefPossible", "NoSleepingWithWork", "NoLostStallWakeup"],
                                                  properties=["AllIngested"], deadlock=True), wd, f"st_{stall}_{mand}_{maxf}_{int(optional)}",
                                workers=6, timeout=1200)
                    bad = r.violated or r.deadlock
                    if r.error and not bad:
                        raise ToolError(f"TLC Stall {consts}: {r.error} ({r.out})")
                    if sane:
                        if bad:
                            raise ToolError(f"Stall.tla fails in a sane configuration {consts}: {r.violated} deadlock={r.deadlock}: the model or the design is wrong")
                        out.add_tlc(f"Stall_S{stall}_M{mand}_F{maxf}_opt{int(optional)}", r)
                    elif bad:
                        hazardous.append({"stall": stall, "mandatory": mand, "max_files": maxf, "model_verdict": r.violated or "deadlock"})
    out.extra["hazardous_configurations"] = hazardous[:40]
    # negative controls: the model needs both notifies
    for dev, expect in (("NoStallNotify", True), ("NoCompactNotify", True)):
        consts = {"K": 2, "NI": 4, "STALL": 2, "MAND": 1, "MAXF": 4, "Optional": False, "Dev": {dev}}
        r = run_tlc("Stall", cfg_text(constants=consts, invariants=["ReliefPossible", "NoSleepingWithWork", "NoLostStallWakeup"], properties=["AllIngested"], deadlock=True),
                    wd, f"st_neg_{dev}", workers=4, timeout=600)
        if not (r.violated or r.deadlock):
            raise ToolError(f"negative control failed: Stall.tla without {dev} should not make progress")
    # real runs, sane configurations only
    docs = []
    if replay:
        docs = [json.load(open(replay))["doc"]]
    else:
        # pinned shapes: disjoint key ranges (every compaction a trivial move), one and several ingesters
        for (ing, comp, nk, stall, mand) in [(1, 1, 1000000, 2, 2), (2, 1, 1000000, 3, 1), (4, 2, 4, 2, 1)]:
            docs.append({"ingesters": ing, "compactors": comp, "iters": 60, "nkeys": nk, "pad": 0, "yield_seed": rng.randrange(1, 1 << 30), "timeout": 90,
                         "opts": {"l0-write-stall-threshold-files": stall, "l0-mandatory-compaction-threshold-files": mand, "max-compaction-files": 16}})
        # a small byte limit per compaction: level-0 compactions are exempt from it and must stay so
        for (ing, nk, stall) in [(1, 3, 4), (2, 6, 3)]:
            docs.append({"ingesters": ing, "compactors": 1, "iters": 60, "nkeys": nk, "pad": 600, "yield_seed": rng.randrange(1, 1 << 30), "timeout": 90,
                         "opts": {"l0-write-stall-threshold-files": stall, "l0-mandatory-compaction-threshold-files": 2, "max-compaction-files": 16, "max-compaction-bytes": 4096}})
        for i in range(8 if not thorough else 60):
            stall = rng.choice([2, 3, 4, 6, 12])
            mand = rng.randint(1, stall)
            maxf = rng.choice([stall + 4, 16, 64])
            docs.append({"ingesters": rng.choice([1, 2, 4]), "compactors": rng.choice([1, 2, 3]), "iters": rng.choice([40, 80, 150]), "nkeys": rng.choice([2, 4, 8, 1000000, 1000000]),
                         "pad": rng.choice([0, 0, 1500]), "yield_seed": rng.choice([0, rng.randrange(1, 1 << 30)]), "timeout": 90,
                         "opts": {"l0-write-stall-threshold-files": stall, "l0-mandatory-compaction-threshold-files": mand, "max-compaction-files": maxf}})
    run_ingest_stress(out, wd, docs, PROP)
    # the store's own clients under the same watchdog (flush thread + compaction threads + writers)
    if not replay:
        p_conc.run_stress(out, wd, p_conc.conc_docs(rng, 4 if not thorough else 20), PROP, vlib.open_deviations({"C06"}), "c20_")
    out.samples = [json.dumps(d, separators=(",", ":"))[:400] for d in docs[:2]]
    out.extra["rule"] = ("Stall.tla over every (stall, mandatory, max files) in 1..3 (1..4 thorough), K=2..3 compaction threads, with deadlock check and liveness under weak fairness; "
                         "real LsmTree::ingest stress and store stress with a watchdog in sane configurations")
    return out.finish("model_checking", ASSUMPTIONS)
