"""C10 — an SST or block returns exactly what was put in (Cursor.tla abstract cursor + TableFacts)."""
import json
import os
import vlib
from vlib import Outcome, ToolError, cfg_text, run_tlc, run_vh_parallel, split_lines

PROP = "C10"
ASSUMPTIONS = [
    "the specification of a table is the abstract cursor over its entries (Cursor.tla 'vec'), NewestLE for timestamped lookups, and the metadata definitions; "
    "block layout, restart points, prefix compression, index and bloom filter are implementation detail exercised through builder options and key shapes",
    "bounded scope: 3 keys x 2..3 timestamps x {value, tombstone}; key shapes plain / shared-prefix / binary extremes; values padded to force several blocks",
    "maximal key/value sizes and TABLE_FULL are not reached by this check",
]

# (leaf flag, value, keyset, pad)
CONFIGS_QUICK = [
    ("--block-leaves", "1,1", "prefix", 0),
    ("--block-leaves", "1024,16", "bin", 0),
    ("--block-leaves", "16,2", "plain", 0),
    ("--sst-restarts", "1,1", "prefix", 0),
    ("--sst-restarts", "1024,16", "bin", 2100),
    ("--sst-restarts", "64,3", "prefix", 1400),
]
CONFIGS_THOROUGH = CONFIGS_QUICK + [
    ("--block-leaves", "2,1", "bin", 0), ("--block-leaves", "1,3", "prefix", 40), ("--block-leaves", "1024,2", "prefix", 0),
    ("--sst-restarts", "1,1", "bin", 4200), ("--sst-restarts", "2,2", "plain", 900), ("--sst-restarts", "1024,1", "prefix", 2100),
]


def check(replay=None):
    out = Outcome(PROP)
    wd = vlib.workdir()
    vlib.build_harness()
    thorough = vlib.tier() != "quick"
    grid = [(3, 2)] if not thorough else [(3, 2), (2, 3), (3, 3)]
    configs = CONFIGS_THOROUGH if thorough else CONFIGS_QUICK
    for (k, t) in grid:
        name = f"table_K{k}T{t}"
        consts = {"K": k, "T": t, "N": 1, "Mode": "table", "MaxLen": 0, "Emit": True, "Dev": set()}
        r = run_tlc("MC_Cursor", cfg_text(constants=consts, invariants=["EmitLine", "EmitTable", "Conform"], view="View"), wd, name,
                    workers=12, timeout=3000)
        if not r.ok():
            raise ToolError(f"TLC {name}: violated={r.violated} error={r.error} ({r.out})")
        out.add_tlc(name, r, {"K": k, "T": t})
        if k * t >= 9 and len(configs) > 6:
            use = configs[:6]
        else:
            use = configs
        nchunks = 6
        files, cnt = split_lines(r.out, "REPLAY", nchunks, wd, name)
        tfiles, tcnt = split_lines(r.out, "TABLE", nchunks, wd, name + "_facts")
        # append the TABLE lines to the replay chunks so one harness run sees both
        for f, tf in zip(files, tfiles):
            with open(f, "a") as fo:
                fo.write(open(tf).read())
        jobs = []
        envs = []
        for ci, (flag, val, keyset, pad) in enumerate(use):
            for i, f in enumerate(files):
                jobs.append((["cursor-replay", f, os.path.join(wd, f"scr-{name}-{ci}-{i}"), vlib.REPLAYS, PROP, flag, val] +
                             (["--sst-leaves"] if flag == "--sst-restarts" else []), {"VH_KEYSET": keyset, "VH_PAD": str(pad)}))
        # the empty key as the first stored key: table facts only (lookups, metadata, refused appends)
        for (flag, val) in (("--block-leaves", "2,1"), ("--sst-restarts", "1,1"), ("--sst-restarts", "1024,2")):
            for i, tf in enumerate(tfiles):
                jobs.append((["cursor-replay", tf, os.path.join(wd, f"scr-{name}-e-{flag[2]}{val}-{i}"), vlib.REPLAYS, PROP, flag, val] +
                             (["--sst-leaves"] if flag == "--sst-restarts" else []), {"VH_KEYSET": "empty1", "VH_PAD": "0"}))
        results = run_env_jobs(jobs)
        for res in results:
            out.traces += res["evaluations"]
            out.extra["impl_calls_compared"] = out.extra.get("impl_calls_compared", 0) + res["steps"]
            for v in res["violations"]:
                out.violation(v["replay"], json.dumps(v["mismatch"])[:300])
            for s in res["samples"][:1]:
                if len(out.samples) < 3:
                    out.samples.append(json.dumps(s, separators=(",", ":"))[:500])
    out.extra["builder_configurations"] = [list(c) for c in configs]
    out.extra["exhaustive"] = True
    out.extra["rule"] = ("every sorted table over K keys x T timestamps x {value,tombstone}; every reachable cursor state's program plus every one- and "
                         "two-call extension, every (key, timestamp) lookup, metadata, refusal of every entry not after the last; each under several "
                         "builder option sets and key shapes, as block and as SST")
    return out.finish("model_checking", ASSUMPTIONS)


def run_env_jobs(jobs):
    """like vlib.run_vh_parallel but with a per-job environment"""
    import subprocess
    import time
    pending = list(enumerate(jobs))
    running = []
    results = [None] * len(jobs)
    while pending or running:
        while pending and len(running) < 14:
            i, (a, env) = pending.pop(0)
            import tempfile
            fo = tempfile.TemporaryFile(mode="w+", errors="replace")       # files, not pipes: a large RESULT line must not block the child
            fe = tempfile.TemporaryFile(mode="w+", errors="replace")
            p = subprocess.Popen([vlib.VH] + a, stdout=fo, stderr=fe, text=True, env=dict(os.environ, **env))
            p._vh_files = (fo, fe)
            running.append((i, p, time.time()))
        still = []
        for i, p, t0 in running:
            if p.poll() is None:
                if time.time() - t0 > 1800:
                    p.kill()
                    raise ToolError("table replay job timed out")
                still.append((i, p, t0))
                continue
            p.wait()
            fo, fe = p._vh_files
            fo.seek(0)
            fe.seek(0)
            o, e = fo.read(), fe.read()
            fo.close()
            fe.close()
            res = None
            for line in o.splitlines():
                if line.startswith("RESULT "):
                    res = json.loads(line[7:])
            if res is None:
                raise ToolError(f"table replay job produced no RESULT (rc={p.returncode}): {e[-300:]}")
            results[i] = res
        running = still
        if running:
            time.sleep(0.02)
    return results
