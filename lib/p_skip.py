"""C17 — lock-free skip list and prepend-only list (spec/SkipList.tla, Trace_SkipList.tla)."""
import json
import os
import random
import re
import vlib
from vlib import Outcome, ToolError, cfg_text, run_tlc, run_vh_parallel

PROP = "C17"
INV = ["LevelsSorted", "NoLostInsert", "WithinHeight", "IterSorted", "IterSeesCompleted", "IterOnlyInserted", "IterValidWhileHeld"]
ASSUMPTIONS = [
    "sequential consistency: TLC does not model the Release/Acquire orderings of the atomics (not reachable with this technique)",
    "SkipList.tla: <=3 concurrent inserters of neighbouring keys, one iterating reader, MAX_HEIGHT <= 3, every interleaving of single loads/stores/CASes",
    "stress traces: events ordered by one atomic counter taken before a call and after its return; seeded yields inside insert (hook)",
    "iterator validity: deallocation is observed through keys that count their own drop, after all inserts (drop needs exclusive access)",
]


def check(replay=None):
    out = Outcome(PROP)
    wd = vlib.workdir()
    vlib.build_harness()
    rng = random.Random(vlib.seed() * 911 + 17)
    thorough = vlib.tier() != "quick"
    grid = [("{1, 2}", 1), ("{1, 2}", 2), ("{1, 2, 3}", 1), ("{1, 2, 3}", 2)]
    if thorough:
        grid += [("{1, 2}", 3), ("{2, 3, 4}", 2)]
    for keys, h in grid:
        consts = {"KeySet": "@" + keys, "MAXH": h, "Dev": set()}
        r = run_tlc("SkipList", cfg_text(constants=consts, invariants=INV), wd, f"sl_{len(keys)}_{h}", workers=12, timeout=3000)
        if not r.ok():
            raise ToolError(f"TLC SkipList {keys} H={h}: violated={r.violated} error={r.error} ({r.out})")
        out.add_tlc(f"SkipList_{keys.replace(' ', '')}_H{h}", r, {"KeySet": keys, "MAXH": h})
    r = run_tlc("SkipList", cfg_text(constants={"KeySet": "@{1, 2}", "MAXH": 2, "Dev": {"CasBeforeSetNext"}}, invariants=INV), wd, "sl_neg", workers=4, timeout=600)
    if not r.violated:
        raise ToolError("negative control failed: publishing a node before its successor is set should lose an insert")
    r = run_tlc("SkipList", cfg_text(constants={"KeySet": "@{1, 2}", "MAXH": 2, "Dev": {"DropFreesUnderIterators"}}, invariants=INV), wd, "sl_neg2", workers=4, timeout=600)
    if not r.violated:
        raise ToolError("negative control failed: freeing the nodes under a held iterator should violate IterValidWhileHeld")
    docs = []
    if replay:
        docs = [json.load(open(replay))["doc"]]
    else:
        n = 12 if not thorough else 80
        for i in range(n):
            if i % 5 == 4:
                docs.append({"kind": "list", "inserters": rng.choice([2, 3, 6]), "nkeys": rng.choice([10, 25]), "yield_seed": rng.choice([0, rng.randrange(1, 1 << 30)])})
            else:
                docs.append({"kind": "skip", "height": rng.choice([1, 2, 2, 3, 12]), "inserters": rng.choice([2, 3, 4, 8]), "readers": rng.choice([1, 2, 4]),
                             "nkeys": rng.choice([12, 24, 48]), "pattern": rng.choice(["asc", "desc", "mixed"]),
                             "yield_seed": rng.choice([0, rng.randrange(1, 1 << 30), rng.randrange(1, 1 << 30)])})
    jobs = []
    for i, d in enumerate(docs):
        dp = os.path.join(wd, f"sk{i}.json")
        json.dump(d, open(dp, "w"))
        jobs.append(["skip-stress", dp, os.path.join(wd, f"sk{i}.ndjson")])
    os.environ["VERIF_JOBS"] = "4"
    res = run_vh_parallel(jobs, timeout=300)
    os.environ.pop("VERIF_JOBS", None)
    for i, x in enumerate(res):
        for v in x.get("violations", []):
            out.violation(v["replay"], json.dumps(v["mismatch"])[:300])
        if x.get("crashed"):
            continue
        tp = os.path.join(wd, f"sk{i}.ndjson")
        r = run_tlc("Trace_SkipList", cfg_text(spec="TraceSpec", postcondition="TraceAccepted"), wd, f"tsk{i}", workers=1, timeout=1200, dfs=True, heap="3g",
                    env_extra={"TRACE": tp})
        text = open(r.out, errors="replace").read()
        nlines = sum(1 for _ in open(tp))
        out.states += r.distinct
        out.transitions += r.generated
        m = re.search(r'"matched", (\d+), "of", (\d+)', text)
        if m or r.distinct < nlines + 1:
            if r.error and not m:
                raise ToolError(f"TLC Trace_SkipList: {r.error} ({r.out})")
            g = re.findall(r'"GUARD-FAILED",\s*"([^"]+)"', text)
            lines = open(tp).read().splitlines()
            at = int(m.group(1)) if m else 0
            path = vlib.save_replay(PROP, "skip", {"doc": docs[i], "guard": g[-1] if g else None, "rejected_event": json.loads(lines[at]) if at < len(lines) else None})
            out.violation(path, f"guard={g[-1] if g else None} event={lines[at][:240] if at < len(lines) else None}")
        else:
            out.traces += 1
            out.extra["events_validated"] = out.extra.get("events_validated", 0) + nlines
    out.samples = [json.dumps(d, separators=(",", ":")) for d in docs[:3]]
    out.extra["rule"] = ("SkipList.tla exhaustively (2-3 inserters of neighbouring keys + an iterating reader, heights 1..3, pointer-operation granularity); "
                         "stress runs of the real skip list (MAX_HEIGHT 1,2,3,12; ascending/descending/mixed key order; keys owned round-robin so neighbours collide) and list")
    return out.finish("model_checking", ASSUMPTIONS)
