"""Shared infrastructure of the /verif checks: build, TLC, harness, evidence, findings."""
import atexit
import fcntl
import json
import os
import re
import shutil
import subprocess
import sys
import tempfile
import time

VERIF = os.path.dirname(os.path.dirname(os.path.abspath(__file__)))
SPEC = os.path.join(VERIF, "spec")
HARNESS = os.path.join(VERIF, "harness")
VH = os.path.join(HARNESS, "target", "release", "vh")
REPLAYS = os.path.join(VERIF, "replays")
EVIDENCE = os.path.join(VERIF, "evidence")
KNOWN = os.path.join(VERIF, "known_findings.json")

T0 = time.time()
_workdirs = []


class ToolError(Exception):
    pass


def log(*a):
    print(*a, file=sys.stderr, flush=True)


def tier():
    return os.environ.get("VERIF_TIER", "quick")


def seed():
    try:
        return int(os.environ.get("VERIF_SEED", "1"))
    except ValueError:
        return 1


def workdir():
    """A scratch directory outside /repo and /verif, removed at exit."""
    base = os.environ.get("VERIF_SCRATCH") or tempfile.gettempdir()
    d = tempfile.mkdtemp(prefix="blue-verif-", dir=base)
    _workdirs.append(d)
    return d


@atexit.register
def _cleanup():
    if os.environ.get("VERIF_KEEP"):
        return
    for d in _workdirs:
        shutil.rmtree(d, ignore_errors=True)


_built = False


def build_harness():
    """(Re)build the harness against /repo's working tree with the hook guard on (once per process)."""
    global _built
    if _built:
        return VH
    os.makedirs(os.path.join(HARNESS, "target"), exist_ok=True)
    lock = open(os.path.join(HARNESS, "target", ".verif-build.lock"), "w")
    fcntl.flock(lock, fcntl.LOCK_EX)
    try:
        lockfile = os.path.join(HARNESS, "Cargo.lock")
        if not os.path.exists(lockfile):
            shutil.copy("/repo/Cargo.lock", lockfile)
        env = dict(os.environ, CARGO_NET_OFFLINE="true")
        t = time.time()
        p = subprocess.run(["cargo", "build", "--release", "--offline"], cwd=HARNESS, env=env,
                           stdout=subprocess.PIPE, stderr=subprocess.STDOUT, text=True)
        if p.returncode != 0:
            log(p.stdout[-4000:])
            raise ToolError("harness build failed")
        log(f"[build] harness ok in {time.time() - t:.1f}s")
    finally:
        fcntl.flock(lock, fcntl.LOCK_UN)
        lock.close()
    shim_src = os.path.join(VERIF, "shim", "shim.c")
    shim_so = os.path.join(VERIF, "shim", "shim.so")
    if os.path.exists(shim_src) and (not os.path.exists(shim_so) or os.path.getmtime(shim_so) < os.path.getmtime(shim_src)):
        p = subprocess.run(["gcc", "-O2", "-shared", "-fPIC", "-o", shim_so, shim_src, "-ldl"],
                           stdout=subprocess.PIPE, stderr=subprocess.STDOUT, text=True)
        if p.returncode != 0:
            log(p.stdout)
            raise ToolError("shim build failed")
    _built = True
    return VH


class TlcResult:
    def __init__(self):
        self.generated = 0
        self.distinct = 0
        self.depth = 0
        self.violated = None      # name of violated invariant/property
        self.error = None         # other TLC error text
        self.out = None           # path of captured output
        self.wall = 0.0
        self.rc = None
        self.coverage = {}
        self.deadlock = False
        self.postcondition_failed = False

    def ok(self):
        return self.violated is None and self.error is None and not self.deadlock and not self.postcondition_failed


def cfg_text(spec="Spec", constants=None, invariants=(), properties=(), view=None, constraints=(),
             action_constraints=(), postcondition=None, deadlock=False, symmetry=None, init=None, next_=None):
    lines = []
    if init and next_:
        lines += [f"INIT {init}", f"NEXT {next_}"]
    else:
        lines.append(f"SPECIFICATION {spec}")
    if constants:
        lines.append("CONSTANTS")
        for k, v in constants.items():
            lines.append(f"  {k} = {tla(v)}")
    if view:
        lines.append(f"VIEW {view}")
    if symmetry:
        lines.append(f"SYMMETRY {symmetry}")
    for i in invariants:
        lines.append(f"INVARIANT {i}")
    for p in properties:
        lines.append(f"PROPERTY {p}")
    for c in constraints:
        lines.append(f"CONSTRAINT {c}")
    for c in action_constraints:
        lines.append(f"ACTION_CONSTRAINT {c}")
    if postcondition:
        lines.append(f"POSTCONDITION {postcondition}")
    lines.append(f"CHECK_DEADLOCK {'TRUE' if deadlock else 'FALSE'}")
    return "\n".join(lines) + "\n"


def tla(v):
    """Render a Python value as a TLA+ constant expression for a cfg file."""
    if isinstance(v, bool):
        return "TRUE" if v else "FALSE"
    if isinstance(v, int):
        return str(v)
    if isinstance(v, str):
        if v.startswith("@"):       # raw
            return v[1:]
        return '"' + v + '"'
    if isinstance(v, (set, frozenset)):
        return "{" + ", ".join(sorted(tla(x) for x in v)) + "}"
    if isinstance(v, (list, tuple)):
        return "<<" + ", ".join(tla(x) for x in v) + ">>"
    raise ToolError(f"cannot render {v!r}")


def run_tlc(module, cfg, wd, name, workers=8, timeout=900, simulate=None, depth=None, seed_=None,
            coverage=False, env_extra=None, heap=None, dfs=False, extra=()):
    """Run TLC on spec/<module>.tla with the given cfg text.  Output captured in wd/<name>.out."""
    cfgp = os.path.join(wd, name + ".cfg")
    with open(cfgp, "w") as f:
        f.write(cfg)
    meta = os.path.join(wd, name + ".meta")
    outp = os.path.join(wd, name + ".out")
    cmd = ["timeout", str(timeout), "tlc", "-workers", str(workers), "-metadir", meta, "-cleanup",
           "-noGenerateSpecTE", "-config", cfgp]
    if simulate:
        cmd += ["-simulate", f"num={simulate}"]
        if depth:
            cmd += ["-depth", str(depth)]
    if seed_ is not None:
        cmd += ["-seed", str(seed_)]
    if coverage:
        cmd += ["-coverage", "1"]
    if dfs:
        # TLC checkpoints every 30 minutes by default and the depth-first queue cannot: a trace validation that long would
        # die with "StateDeque does not support checkpointing"
        cmd += ["-checkpoint", "0"]
    cmd += list(extra)
    cmd.append(module if os.path.isabs(module) else os.path.join(SPEC, module + ".tla"))
    env = dict(os.environ)
    jopts = []
    if os.path.isabs(module):
        jopts.append(f"-DTLA-Library={SPEC}")       # a generated root module outside spec/ that EXTENDS modules of spec/
    if heap:
        jopts.append(f"-Xmx{heap}")
    if dfs:
        jopts += ["-Xss1g", "-Dtlc2.tool.queue.IStateQueue=StateDeque"]
    elif os.environ.get("VERIF_TLC_STACK"):
        jopts += ["-Xss" + os.environ["VERIF_TLC_STACK"]]
    if jopts:
        env["JAVA_TOOL_OPTIONS"] = " ".join(jopts)
    if env_extra:
        env.update(env_extra)
    t = time.time()
    with open(outp, "w") as out:
        p = subprocess.run(cmd, cwd=SPEC, env=env, stdout=out, stderr=subprocess.STDOUT)
    r = TlcResult()
    r.wall = time.time() - t
    r.out = outp
    r.rc = p.returncode
    shutil.rmtree(meta, ignore_errors=True)
    if p.returncode == 124:
        r.error = f"TLC timed out after {timeout}s"
    finished = False
    with open(outp, errors="replace") as f:
        for line in f:
            if line.startswith("<<"):
                continue
            m = re.match(r"(\d+) states generated, (\d+) distinct states found", line)
            if m:
                r.generated, r.distinct = int(m.group(1)), int(m.group(2))
            m = re.match(r"The depth of the complete state graph search is (\d+)", line)
            if m:
                r.depth = int(m.group(1))
            m = re.match(r"Error: Invariant (\S+) is violated", line)
            if m:
                r.violated = m.group(1)
            m = re.match(r"Error: Action property (\S+) is violated", line)
            if m:
                r.violated = m.group(1)
            if "Temporal properties were violated" in line:
                r.violated = r.violated or "temporal"
            if line.startswith("Error: Deadlock reached"):
                r.deadlock = True
            if "Postcondition" in line and ("violated" in line or "false" in line.lower()):
                r.postcondition_failed = True
            if line.startswith("Error:") and r.violated is None and not r.deadlock and r.error is None \
                    and "Postcondition" not in line and "The behavior up to this point" not in line:
                r.error = line.strip()
            if line.startswith("Finished in") or "Model checking completed" in line:
                finished = True
            m = re.match(r"The number of states generated: (\d+)", line)
            if m:
                r.generated = int(m.group(1))
    if r.error is None and not finished and r.violated is None and not r.deadlock and not simulate:
        r.error = f"TLC did not finish (rc={p.returncode})"
    return r


def run_vh(args, timeout=3600, env_extra=None, stdin=None):
    """Run the harness; returns (rc, result-dict or None, raw stdout)."""
    env = dict(os.environ)
    if env_extra:
        env.update(env_extra)
    p = subprocess.run([VH] + list(args), stdout=subprocess.PIPE, stderr=subprocess.PIPE, text=True,
                       timeout=timeout, env=env, input=stdin)
    res = None
    for line in p.stdout.splitlines():
        if line.startswith("RESULT "):
            res = json.loads(line[7:])
    if res is None:
        log(p.stdout[-2000:])
        log(p.stderr[-2000:])
        raise ToolError(f"harness {args[0]} produced no RESULT (rc={p.returncode})")
    return p.returncode, res, p.stdout


class HarnessCrash(Exception):
    """The harness process died while running a case against the code under test: that is an
    observation about the code (abort, stack overflow, signal), not a tool error."""

    def __init__(self, args, rc, inflight, stderr):
        super().__init__(f"harness {args[0]} died rc={rc}")
        self.args_ = args
        self.rc = rc
        self.inflight = inflight
        self.stderr = stderr


def run_vh_parallel(jobs, timeout=3600):
    """jobs: list of arg lists.  Runs up to 14 at a time.  Returns list of result dicts.
    A job that dies without a RESULT yields {"crashed": True, "rc":…, "inflight": case} instead."""
    build_harness()
    procs = []
    results = [None] * len(jobs)
    pending = list(enumerate(jobs))
    running = []
    maxpar = int(os.environ.get("VERIF_JOBS", "14"))
    while pending or running:
        while pending and len(running) < maxpar:
            i, a = pending.pop(0)
            infl = os.path.join(tempfile.gettempdir(), f"vh-inflight-{os.getpid()}-{i}.json")
            # output goes to files, not pipes: a RESULT line carrying a large case would fill a pipe nobody reads until the
            # child exits, and the child would never exit
            fo = tempfile.TemporaryFile(mode="w+", errors="replace")
            fe = tempfile.TemporaryFile(mode="w+", errors="replace")
            p = subprocess.Popen([VH] + list(a), stdout=fo, stderr=fe, text=True,
                                 env=dict(os.environ, VH_INFLIGHT=infl))
            p._vh_files = (fo, fe)
            running.append((i, p, time.time()))
        still = []
        for i, p, t in running:
            if p.poll() is None:
                if time.time() - t > timeout:
                    p.kill()
                    raise ToolError(f"harness job {jobs[i][0]} timed out")
                still.append((i, p, t))
                continue
            p.wait()
            fo, fe = p._vh_files
            fo.seek(0)
            fe.seek(0)
            out, err = fo.read(), fe.read()
            fo.close()
            fe.close()
            res = None
            for line in out.splitlines():
                if line.startswith("RESULT "):
                    res = json.loads(line[7:])
            infl = os.path.join(tempfile.gettempdir(), f"vh-inflight-{os.getpid()}-{i}.json")
            if res is None:
                case = None
                if os.path.exists(infl):
                    try:
                        case = json.load(open(infl))
                    except Exception:
                        case = None
                if p.returncode is not None and (p.returncode < 0 or p.returncode in (101, 134)) and case is not None:
                    os.makedirs(REPLAYS, exist_ok=True)
                    import hashlib
                    hname = hashlib.sha1(json.dumps(case, sort_keys=True).encode()).hexdigest()[:16]
                    rpath = os.path.join(REPLAYS, f"crash-{jobs[i][0]}-{hname}.json")
                    with open(rpath, "w") as fh:
                        json.dump({"kind": "harness-crash", "subcommand": jobs[i][0], "args": list(jobs[i]), "rc": p.returncode,
                                   "record": case, "doc": case, "case": case, "stderr": err[-500:]}, fh, indent=1)
                    mism = {"harness_died": True, "rc": p.returncode, "stderr": err[-300:]}
                    res = {"crashed": True, "rc": p.returncode, "inflight": case, "stderr": err[-500:], "evaluations": 1, "steps": 0,
                           "violations": [{"replay": rpath, "mismatch": mism, "sizes": case.get("sizes") if isinstance(case, dict) else None,
                                           "record": case, "x": case.get("x") if isinstance(case, dict) else None}],
                           "samples": [], "known": {}, "extra": {}, "distinct": 0}
                else:
                    log(out[-2000:])
                    log(err[-2000:])
                    raise ToolError(f"harness job {jobs[i][0]} produced no RESULT (rc={p.returncode})")
            if os.path.exists(infl):
                os.remove(infl)
            results[i] = res
        running = still
        if running:
            time.sleep(0.02)
    return results


def split_lines(path, tag, n, wd, name):
    """Split the lines of `path` that start with <<"tag" round-robin into n files."""
    outs = [open(os.path.join(wd, f"{name}.{i}.lines"), "w") for i in range(n)]
    cnt = 0
    pre = f'<<"{tag}"'
    with open(path, errors="replace") as f:
        for line in f:
            if line.startswith(pre):
                outs[cnt % n].write(line)
                cnt += 1
    for o in outs:
        o.close()
    return [o.name for o in outs], cnt


def load_known():
    if not os.path.exists(KNOWN):
        return []
    with open(KNOWN) as f:
        return json.load(f)["findings"]


def open_findings(prop):
    return [k for k in load_known() if k["property"] == prop and k["status"] == "open"]


def open_deviations(props):
    """Deviation names that are listed as open for any of the given properties."""
    devs = set()
    for k in load_known():
        if k["status"] == "open" and k["property"] in props and k.get("deviation"):
            devs.add(k["deviation"])
    return devs


def write_evidence(prop, level, coverage, assumptions, violations):
    os.makedirs(EVIDENCE, exist_ok=True)
    ev = {
        "property_id": prop,
        "tier": tier(),
        "seed": seed(),
        "level": level,
        "coverage": coverage,
        "assumptions": assumptions,
        "wall_s": round(time.time() - T0, 2),
        "violations": violations,
    }
    tmp = os.path.join(EVIDENCE, f".{prop}.json.tmp")
    with open(tmp, "w") as f:
        json.dump(ev, f, indent=1, sort_keys=True)
    os.replace(tmp, os.path.join(EVIDENCE, f"{prop}.json"))


def save_replay(prop, kind, body):
    os.makedirs(REPLAYS, exist_ok=True)
    import hashlib
    h = hashlib.sha1(json.dumps(body, sort_keys=True).encode()).hexdigest()[:16]
    path = os.path.join(REPLAYS, f"{prop}-{kind}-{h}.json")
    with open(path, "w") as f:
        json.dump({"property": prop, "kind": kind, **body}, f, indent=1)
    return path


class Outcome:
    """Collects what a check found; decides the exit code."""

    def __init__(self, prop):
        self.prop = prop
        self.violations = []      # (replay path, text)
        self.known_seen = {}      # finding id -> text
        self.states = 0
        self.transitions = 0
        self.traces = 0
        self.samples = []
        self.extra = {}
        self.tlc_runs = []

    def add_tlc(self, name, r, constants=None):
        self.states += r.distinct
        self.transitions += r.generated
        self.tlc_runs.append({"name": name, "distinct": r.distinct, "generated": r.generated, "depth": r.depth,
                              "wall_s": round(r.wall, 1), "constants": constants or {}})

    def violation(self, replay, text):
        self.violations.append((replay, text))

    def known(self, fid, text):
        self.known_seen[fid] = text

    def finish(self, level, assumptions, extra_cov=None):
        cov = {
            "states": self.states,
            "transitions": self.transitions,
            "traces_validated_against_impl": self.traces,
            "samples": self.samples[:5] if self.samples else ["(none)"],
            "tlc_runs": self.tlc_runs,
            "known_findings_seen": sorted(self.known_seen),
        }
        cov.update(self.extra)
        if extra_cov:
            cov.update(extra_cov)
        write_evidence(self.prop, level, cov, assumptions, len(self.violations))
        # every open finding listed for this property is announced on every run; the ones this run actually
        # exercised carry the witness it saw
        for k in load_known():
            if k["status"] == "open" and k["property"] == self.prop and k["id"] not in self.known_seen:
                self.known_seen[k["id"]] = f"{k.get('deviation', k['id'])}: {k['what'][:200]} (listed; not exercised by this run's inputs)"
        for fid, text in sorted(self.known_seen.items()):
            print(f"KNOWN-FINDING: property={self.prop} {text}")
        for replay, text in self.violations[:20]:
            print(f"VIOLATION property={self.prop} replay={replay}")
            log(f"  {text}")
        sys.stdout.flush()
        return 1 if self.violations else 0
