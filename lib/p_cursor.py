"""C11 — cursor combinators equal their definitions (spec/Cursor.tla, spec/MC_Cursor.tla)."""
import json
import os
import vlib
from vlib import Outcome, ToolError, cfg_text, run_tlc, run_vh_parallel, split_lines, log

PROP = "C11"

GRID = {
    "quick": [("merge", 2, 2, 2), ("concat", 2, 2, 2), ("concat", 2, 1, 3), ("prune", 2, 2, 1), ("prune", 1, 3, 1),
              ("bounds", 2, 2, 1), ("lazy", 2, 2, 1), ("scan", 2, 1, 2)],
    "thorough": [("merge", 3, 2, 2), ("merge", 2, 2, 3), ("concat", 3, 2, 3), ("concat", 2, 2, 4), ("prune", 3, 3, 1),
                 ("prune", 2, 4, 1), ("bounds", 3, 2, 1), ("lazy", 3, 2, 1), ("scan", 2, 2, 2)],
}

ASSUMPTIONS = [
    "leaves are sst::reference::ReferenceCursor (and real SstCursor in the --sst-leaves pass); their own correctness is C10",
    "tables of one family never hold the same (key, timestamp) twice (no exact duplicates across tables)",
    "concatenated children are key-ordered and their concatenation is sorted (one key's versions may straddle two children)",
    "bounded scope: keys 1..K, timestamps 1..T, N tables; every program is covered through reachability of the product state",
]


def gen_and_replay(out, wd, devs, grid, prop=PROP, sst_pass=True):
    vh = vlib.build_harness()
    total_records = 0
    for (mode, k, t, n) in grid:
        name = f"{mode}_K{k}T{t}N{n}"
        consts = {"K": k, "T": t, "N": n, "Mode": mode, "MaxLen": 0, "Emit": True, "Dev": set(devs)}
        invs = ["EmitLine"] + (["Conform"] if not devs else [])
        r = run_tlc("MC_Cursor", cfg_text(constants=consts, invariants=invs, view="View"), wd, name,
                    workers=12, timeout=3000)
        if not r.ok():
            raise ToolError(f"TLC {name}: violated={r.violated} error={r.error} (see {r.out})")
        out.add_tlc(name, r, {"K": k, "T": t, "N": n, "Mode": mode, "Dev": sorted(devs)})
        if devs:
            # the property itself on the repaired design
            consts2 = dict(consts, Emit=False, Dev=set())
            r2 = run_tlc("MC_Cursor", cfg_text(constants=consts2, invariants=["Conform"], view="View"), wd,
                         name + "_ideal", workers=12, timeout=3000)
            if not r2.ok():
                raise ToolError(f"TLC {name}_ideal: violated={r2.violated} error={r2.error}")
            out.add_tlc(name + "_ideal", r2, {"K": k, "T": t, "N": n, "Mode": mode, "Dev": []})
        nchunks = 14 if r.distinct > 20000 else 4
        files, cnt = split_lines(r.out, "REPLAY", nchunks, wd, name)
        if cnt != r.distinct:
            raise ToolError(f"{name}: {cnt} REPLAY lines for {r.distinct} distinct states")
        total_records += cnt
        jobs = []
        for i, f in enumerate(files):
            jobs.append(["cursor-replay", f, os.path.join(wd, f"scr-{name}-{i}"), vlib.REPLAYS, prop])
        if sst_pass and (mode in ("merge", "concat", "scan") and r.distinct <= 60000):
            for i, f in enumerate(files):
                jobs.append(["cursor-replay", f, os.path.join(wd, f"scs-{name}-{i}"), vlib.REPLAYS, prop, "--sst-leaves"])
        results = run_vh_parallel(jobs)
        for res in results:
            out.traces += res["evaluations"]
            out.extra["impl_calls_compared"] = out.extra.get("impl_calls_compared", 0) + res["steps"]
            for v in res["violations"]:
                out.violation(v["replay"], json.dumps(v["mismatch"])[:400])
            if res["known"]:
                out.extra["records_showing_open_deviation"] = out.extra.get("records_showing_open_deviation", 0) + \
                    sum(res["known"].values())
            for s in res["samples"][:1]:
                if len(out.samples) < 4:
                    out.samples.append(json.dumps(s, separators=(',', ':'))[:700])
        os.remove(r.out)
        for f in files:
            os.remove(f)
    return total_records


def check(replay=None):
    out = Outcome(PROP)
    wd = vlib.workdir()
    devs = vlib.open_deviations({PROP})
    if replay:
        return replay_one(replay, out, wd)
    gen_and_replay(out, wd, devs, GRID[vlib.tier()])
    if out.extra.get("records_showing_open_deviation"):
        for k in vlib.open_findings(PROP):
            out.known(k["id"], f"{k['deviation']}: {k['what']}")
    out.extra["exhaustive"] = True
    out.extra["rule"] = ("one behaviour per distinct (case, operational cursor state, abstract position) of MC_Cursor; "
                         "each replayed call by call on the real cursor, then extended by every single call")
    return out.finish("model_checking", ASSUMPTIONS)


def replay_one(path, out, wd):
    vlib.build_harness()
    body = json.load(open(path))
    rec = body["record"]
    f = os.path.join(wd, "one.lines")
    with open(f, "w") as fh:
        fh.write('<<"REPLAY", ' + json.dumps(json.dumps(rec)) + ">>\n")
    res = run_vh_parallel([["cursor-replay", f, os.path.join(wd, "scr"), os.path.join(wd, "rp"), PROP]])[0]
    for v in res["violations"]:
        print(json.dumps(v["mismatch"]))
        out.violation(path, json.dumps(v["mismatch"])[:400])
    for replay, text in out.violations:
        print(f"VIOLATION property={PROP} replay={replay}")
    return 1 if out.violations else 0
