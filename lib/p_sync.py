"""C18 — coalescing queue, wait list, LRU (spec/Coalesce.tla, Trace_Coalesce.tla, Lru.tla)."""
import json
import os
import re
import vlib
from vlib import Outcome, ToolError, cfg_text, run_tlc, run_vh_parallel

PROP = "C18"
SAFETY = ["AtMostOnce", "ExactlyOnceAtEnd", "InLinkOrder", "OwnResult", "OneHead", "NoUnlinkedBeforeHead", "MutexSane"]
ASSUMPTIONS = [
    "Coalesce.tla: each wait-list method is one atomic step (it runs under the wait list's mutex); std Mutex/Condvar semantics; sequential consistency",
    "deadlock freedom and liveness are checked without spurious wake-ups (the worst case for lost wake-ups); safety also with them",
    "LRU as coded: overwriting a present key does not refresh its recency; eviction may remove the entry just inserted",
    "stress traces order events by one global atomic counter taken before the call and after the return (work events under the core mutex)",
]


def check(replay=None):
    out = Outcome(PROP)
    wd = vlib.workdir()
    vlib.build_harness()
    thorough = vlib.tier() != "quick"
    # A: the queue/wait-list protocol
    grid = [(3, 4, "all"), (3, 4, "limit2"), (3, 4, "none"), (3, 2, "all")]
    if thorough:
        grid += [(4, 5, "all"), (4, 5, "limit2"), (4, 3, "limit2"), (4, 2, "none")]
    for (n, slots, pol) in grid:
        consts = {"N": n, "SLOTS": slots, "Policy": pol, "Spurious": False, "Dev": set()}
        r = run_tlc("Coalesce", cfg_text(constants=consts, invariants=SAFETY, properties=["EveryCallReturns"], deadlock=True),
                    wd, f"co_{n}_{slots}_{pol}", workers=10, timeout=3000)
        if not r.ok():
            raise ToolError(f"TLC Coalesce {n},{slots},{pol}: violated={r.violated} deadlock={r.deadlock} error={r.error} ({r.out})")
        out.add_tlc(f"Coalesce_N{n}_S{slots}_{pol}", r, {"N": n, "SLOTS": slots, "Policy": pol})
        consts["Spurious"] = True
        r = run_tlc("Coalesce", cfg_text(constants=consts, invariants=SAFETY), wd, f"cos_{n}_{slots}_{pol}", workers=10, timeout=3000)
        if not r.ok():
            raise ToolError(f"TLC Coalesce spurious {n},{slots},{pol}: violated={r.violated} error={r.error}")
        out.add_tlc(f"Coalesce_spurious_N{n}_S{slots}_{pol}", r)
    # the model must notice a missing notify_head (sanity of the deadlock check itself)
    consts = {"N": 3, "SLOTS": 4, "Policy": "all", "Spurious": False, "Dev": {"NoNotifyHead"}}
    r = run_tlc("Coalesce", cfg_text(constants=consts, invariants=SAFETY, deadlock=True), wd, "co_nonotify", workers=4, timeout=600)
    if not r.deadlock:
        raise ToolError("negative control failed: Coalesce without notify_head should deadlock")
    # C: stress traces of the real queue
    # (threads, iterations, policy, ring size; 0 = the real 65536)
    runs = [(4, 200, "all", 0), (8, 200, "limit2", 0), (8, 100, "none", 0), (16, 100, "limit5", 0), (3, 400, "all", 0),
            (8, 200, "all", 2), (8, 200, "limit2", 3), (16, 100, "none", 4), (6, 300, "limit5", 1)]
    if thorough:
        runs = runs * 6 + [(32, 100, "all", 0), (64, 50, "limit2", 0), (32, 100, "limit2", 5), (64, 50, "all", 7)]
    jobs = []
    for i, (t, it, pol, slots) in enumerate(runs):
        jobs.append(["coalesce-stress", str(t), str(it), pol, os.path.join(wd, f"co{i}.ndjson"), "60", str(slots)])
    res = run_vh_parallel(jobs, timeout=400)
    for x in res:
        for v in x.get("violations", []):
            out.violation(v["replay"], json.dumps(v["mismatch"])[:300])
    for i, (t, it, pol, slots) in enumerate(runs):
        if res[i].get("crashed"):
            continue
        tp = os.path.join(wd, f"co{i}.ndjson")
        cfg = cfg_text(spec="TraceSpec", postcondition="TraceAccepted")
        r = run_tlc("Trace_Coalesce", cfg, wd, f"tco{i}", workers=1, timeout=1200, dfs=True, heap="3g", env_extra={"TRACE": tp})
        text = open(r.out, errors="replace").read()
        nlines = sum(1 for _ in open(tp))
        out.states += r.distinct
        out.transitions += r.generated
        m = re.search(r'"matched", (\d+), "of", (\d+)', text)
        if m or r.distinct < nlines + 1:
            if r.error and not m:
                raise ToolError(f"TLC Trace_Coalesce: {r.error} ({r.out})")
            g = re.findall(r'"GUARD-FAILED",\s*"([^"]+)"', text)
            lines = open(tp).read().splitlines()
            at = int(m.group(1)) if m else 0
            path = vlib.save_replay(PROP, "coalesce", {"threads": t, "iters": it, "policy": pol, "slots": slots, "guard": g[-1] if g else None,
                                                       "rejected_event": json.loads(lines[at]) if at < len(lines) else None})
            out.violation(path, f"coalesce stress {t}x{it} {pol} ring={slots}: guard={g[-1] if g else None} event={lines[at][:200] if at < len(lines) else None}")
        else:
            out.traces += 1
            out.extra["queue_events_validated"] = out.extra.get("queue_events_validated", 0) + nlines
    # LRU: exhaustive small model, every distinct state's program and every one-op extension replayed
    caps = [0, 1, 2, 4] if not thorough else [0, 1, 2, 3, 4, 5, 7]
    for cap in caps:
        consts = {"Keys": "@{1, 2, 3}", "Sizes": "@{1, 2, 3}", "Capacity": cap, "Emit": True}
        r = run_tlc("Lru", cfg_text(constants=consts, invariants=["DistinctKeys", "InsertRespectsCapacity", "EmitLine"], view="View"),
                    wd, f"lru{cap}", workers=4, timeout=900)
        if not r.ok():
            raise ToolError(f"TLC Lru cap={cap}: violated={r.violated} error={r.error} ({r.out})")
        out.add_tlc(f"Lru_cap{cap}", r, {"Capacity": cap})
        x = run_vh_parallel([["lru-replay", r.out]])[0]
        out.traces += x["evaluations"]
        out.extra["lru_calls_compared"] = out.extra.get("lru_calls_compared", 0) + x["steps"]
        for v in x["violations"]:
            path = vlib.save_replay(PROP, "lru", {"case": v})
            out.violation(path, json.dumps(v["mismatch"])[:300])
        for s in x["samples"][:1]:
            if len(out.samples) < 3:
                out.samples.append(json.dumps(s, separators=(",", ":"))[:400])
    out.extra["rule"] = ("Coalesce.tla exhaustively for N<=4 threads, ring sizes above and below N, three can_batch policies; stress traces of "
                         "the real queue validated event by event; every distinct LRU state (3 keys, sizes 1..3, capacities) with every one-op extension")
    return out.finish("model_checking", ASSUMPTIONS)
