"""C19 — the compressed text index answers as the plain text would (spec/Text.tla, MC_Text.tla)."""
import json
import os
import random
import vlib
from vlib import Outcome, ToolError, cfg_text, run_tlc, run_vh_parallel

PROP = "C19"
ASSUME_ = [
    "exhaustive part: every text up to MaxLen over a 2-symbol alphabet, every division into records, every needle up to MaxNeedle over 3 symbols (one absent); every bit pattern up to MaxBits",
    "data part: seeded texts of the degenerate shapes (single symbol, all equal, periodic, de Bruijn-like, large code points, alphabets up to thousands, one symbol per record) with substrings, absent needles and needles crossing record boundaries; long bit patterns probed at sampled positions",
    "record boundaries are strictly increasing, start at 0 and lie inside the text (what Document::construct accepts): the empty text and empty records are rejected by construct and not indexed",
    "CompressedDocument is the index under test (ReferenceDocument is run through the same questions); the other PsiDocument instantiations are not",
    "select(x) is the least position with rank x (the trait's documented meaning)",
]


def de_bruijn(k, n):
    a = [0] * k * n
    seq = []

    def db(t, p):
        if t > n:
            if n % p == 0:
                seq.extend(a[1:p + 1])
        else:
            a[t] = a[t - p]
            db(t + 1, p)
            for j in range(a[t - p] + 1, k):
                a[t] = j
                db(t + 1, t)
    db(1, 1)
    return [x + 1 for x in seq]


def skewed(rng, steps=16):
    """A two-symbol context (10, 11) whose preceding symbols have Fibonacci-like counts: its code tree is a caterpillar deeper than 16
    levels with four leaves at the bottom (round-5 seed C19-3: code words cut to 16 bits collapse those symbols)."""
    counts = [1, 1, 1, 1]
    merged, cur = 4, 3
    for _ in range(steps):
        counts.append(cur)
        nxt = max(merged, cur) + 1
        merged += cur
        cur = nxt
    syms = [100 + i for i in range(len(counts))]
    occ = [s for s, c in zip(syms, counts) for _ in range(c)]
    rng.shuffle(occ)
    text = []
    for s in occ:
        text += [s, 10, 11]
    return text, syms


def docs(rng, thorough):
    out = []

    def add(text, starts=None, extra_needles=()):
        n = len(text)
        if starts is None:
            cuts = sorted(set(rng.sample(range(1, n), min(n - 1, rng.choice([0, 1, 3, 8])))) if n > 1 else [])
            starts = [0] + cuts
        needles = [[]]
        for _ in range(14):
            i = rng.randrange(n)
            ln = rng.choice([1, 1, 2, 3, 5, 9, n])
            needles.append(text[i:i + ln])
        for s in starts[1:3]:
            needles.append(text[max(0, s - 2):s + 2])      # crossing a record boundary
        mx = max(text)
        needles += [[mx + 1], text[:2] + [mx + 7], text + [text[0]], text[-3:], text[:1] * 4] + [list(x) for x in extra_needles]
        uniq = []
        for nd in needles:
            if nd not in uniq:
                uniq.append(nd)
        out.append({"text": text, "starts": starts, "needles": uniq})
    add([5])
    add([7] * 40)
    add([1, 2] * 30)
    add([1, 2, 3] * 20 + [1])
    add(de_bruijn(2, 6))
    add(de_bruijn(3, 3) * 2)
    add([0x10FFFF, 0x1F600, 65, 0x10FFFF, 66, 0x1F600, 0x1F600])
    add(list(range(1, 1500)) + list(range(1, 40)))
    add([rng.randrange(1, 3000) for _ in range(400)])
    add([rng.choice([97, 98, 99, 10]) for _ in range(300)])
    t = [rng.choice([1, 2, 3]) for _ in range(60)]
    add(t, starts=list(range(len(t))))                       # one symbol per record
    # alphabets at the symbol-width boundaries of the index (a byte / two bytes per symbol)
    for k in (255, 256, 257):
        perm = list(range(k))
        rng.shuffle(perm)
        add(perm + perm[:7])
    if thorough:
        for k in (65535, 65536, 65537):
            add(list(range(k)) + [3, 2, 1])
    add([9, 9, 9, 9, 1, 9, 9, 9, 9])
    sk, syms = skewed(rng)
    add(sk, starts=[0, 301, 5000, len(sk) - 7], extra_needles=[[x, 10, 11] for x in syms[:8]] + [[x, 10] for x in syms[:5]] + [[11, x] for x in syms[:6]] + [[syms[0]], [syms[5], 10, 11, syms[-1]]])
    add([2 ** 31 - 9, 1, 2 ** 31 - 9, 2 ** 30, 0, 0, 1])    # symbol 0 and the largest symbol TLC can hold (its integers are 32-bit)
    if thorough:
        for _ in range(40):
            n = rng.choice([2, 3, 17, 64, 65, 200, 1000])
            k = rng.choice([1, 2, 4, 16, 300])
            add([rng.randrange(1, k + 1) for _ in range(n)])
    return out


def bit_cases(rng, thorough):
    out = []

    def add(bits):
        n = len(bits)
        at = set([0, 1, 2, n // 2, n - 1, n, n + 1] + [rng.randrange(0, n + 2) for _ in range(60)])
        for w in (62, 63, 64, 126, 127, 128, 4095, 4096, 4097):
            at |= {w - 1, w, w + 1}
        at |= {sum(bits), sum(bits) + 1, max(0, sum(bits) - 1)}
        out.append({"bits": bits, "at": sorted(x for x in at if 0 <= x <= n + 2)})
    for n in (63, 64, 126, 1000, 4096, 20000 if thorough else 6000):
        add([0] * n)
        add([1] * n)
        add([(i // 63) % 2 for i in range(n)])              # runs aligned to the 63-bit blocks of rrr
        add([1 if rng.random() < 0.02 else 0 for _ in range(n)])
        add([1 if rng.random() < 0.5 else 0 for _ in range(n)])
    add([1] + [0] * 500 + [1])
    return out


def check(replay=None):
    out = Outcome(PROP)
    wd = vlib.workdir()
    vlib.build_harness()
    rng = random.Random(vlib.seed() * 6011 + 19)
    thorough = vlib.tier() != "quick"
    outs = []
    if replay:
        body = json.load(open(replay))
        case = body["case"]
        dp, bp = os.path.join(wd, "docs.ndjson"), os.path.join(wd, "bits.ndjson")
        with open(dp, "w") as f:
            if "text" in case:
                n = len(case["text"])
                needles = [[]] + [case["text"][i:i + l] for i in range(n) for l in (1, 2, 3) if i + l <= n][:60]
                f.write(json.dumps({"text": case["text"], "starts": case["starts"], "needles": needles + ([body["mismatch"]["needle"]] if "needle" in body.get("mismatch", {}) else [])}) + "\n")
        with open(bp, "w") as f:
            if "bits" in case:
                f.write(json.dumps({"bits": case["bits"], "at": list(range(len(case["bits"]) + 2))}) + "\n")
        runs = [("data", {"Alpha": 1, "MaxLen": 1, "MaxNeedle": 1, "MaxBits": 1, "Mode": "data"}, {"DOCS": dp, "BITS": bp})]
    else:
        small = {"Alpha": 2, "MaxLen": 4 if not thorough else 6, "MaxNeedle": 3 if not thorough else 4, "MaxBits": 8 if not thorough else 12, "Mode": "small"}
        dp, bp = os.path.join(wd, "docs.ndjson"), os.path.join(wd, "bits.ndjson")
        with open(dp, "w") as f:
            for d in docs(rng, thorough):
                f.write(json.dumps(d) + "\n")
        with open(bp, "w") as f:
            for b in bit_cases(rng, thorough):
                f.write(json.dumps(b) + "\n")
        runs = [("small", small, {}), ("data", {"Alpha": 1, "MaxLen": 1, "MaxNeedle": 1, "MaxBits": 1, "Mode": "data"}, {"DOCS": dp, "BITS": bp})]
    os.environ["VERIF_TLC_STACK"] = "512m"
    for name, consts, env in runs:
        r = run_tlc("MC_Text", cfg_text(constants=consts, invariants=["DocOK", "EmitDoc", "EmitBits"]), wd, f"text_{name}", workers=12, timeout=3000, heap="8g", env_extra=env)
        if not r.ok():
            os.environ.pop("VERIF_TLC_STACK", None)
            raise ToolError(f"TLC MC_Text {name}: violated={r.violated} error={r.error} ({r.out})")
        out.add_tlc(f"MC_Text_{name}", r, consts)
        outs.append((name, r.out))
    os.environ.pop("VERIF_TLC_STACK", None)
    jobs = []
    for name, path in outs:
        files, cnt = vlib.split_lines(path, "TEXT", 6, wd, f"text_{name}")
        jobs += [["text-replay", f] for f in files]
    res = run_vh_parallel(jobs, timeout=1800)
    for x in res:
        out.traces += x["evaluations"]
        out.extra["impl_observations_compared"] = out.extra.get("impl_observations_compared", 0) + x["steps"]
        for v in x["violations"]:
            path = replay or vlib.save_replay(PROP, "text", v)
            out.violation(path, json.dumps(v)[:500])
        for s in x["samples"][:1]:
            if len(out.samples) < 3:
                out.samples.append(json.dumps(s, separators=(",", ":"))[:300])
    out.extra["rule"] = ("every answer of Text.tla (len, records, search offsets, count, lookup of every offset, retrieve and offset_of of every record; access, rank, select) "
                         "compared with scrunch::CompressedDocument / the rrr, sparse and reference bit vectors built from the same text / bits")
    return out.finish("model_checking", ASSUME_)
