"""C16 — tuple-key encodings sort as their tuples and decode back (spec/TupleKey.tla, MC_TupleKey.tla)."""
import json
import os
import random
import re
import vlib
from vlib import Outcome, ToolError, cfg_text, run_tlc, run_vh_parallel

PROP = "C16"
ASSUMPTIONS = [
    "the universe is finite: boundary values of every width/length class plus seeded random ones; TLC compares every ordered pair of same-shape tuples in it",
    "strings of format 1 are valid UTF-8 (the element type is String); raw byte strings exist in format 2 only",
    "tuple_key_derive is exercised through one derived type (ascending u64, descending string with the marker above the field number, descending i64 with it below, unit); everything else is built with extend_with_key / the builder",
    "decoding arbitrary bytes: truncations, bit flips, byte overwrites and random strings derived from valid encodings, decoded with the tuple's own type sequence",
]


def bits(v, w):
    v &= (1 << w) - 1
    return [(v >> (w - 1 - i)) & 1 for i in range(w)]


def ints(rng, w, signed, extra):
    vals = set()
    if signed:
        lo, hi = -(1 << (w - 1)), (1 << (w - 1)) - 1
        vals |= {lo, lo + 1, hi, hi - 1, -1, 0, 1, -2, 2}
        for k in (7, 8, 14, 15, 16, 21, 24, 31, 32, 40, 48, 56, 62):
            if k < w - 1:
                vals |= {(1 << k) - 1, 1 << k, (1 << k) + 1, -(1 << k) - 1, -(1 << k), -(1 << k) + 1}
    else:
        hi = (1 << w) - 1
        vals |= {0, 1, 2, hi, hi - 1}
        for k in (4, 7, 8, 14, 15, 16, 21, 24, 28, 31, 32, 40, 48, 56, 63):
            if k < w:
                vals |= {(1 << k) - 1, 1 << k, (1 << k) + 1}
    vals = sorted(vals)
    if len(vals) > 26:
        keep = set(vals[:4] + vals[-4:])
        keep |= set(rng.sample(vals, 18))
        vals = sorted(keep)
    for _ in range(extra):
        vals.append(rng.randrange(-(1 << (w - 1)), 1 << (w - 1)) if signed else rng.randrange(0, 1 << w))
    return sorted(set(vals))


STRINGS = ["", "\x00", "\x01", "\x00\x00", "\x00\x01", "a", "a\x00", "a\x01", "a\x7f", "ab", "abc", "b", "\x7f", "\u0080", "ÿ", "abcde", "abcdef", "abcdefg", "abcdefgh",
           "abcdef\x00", "abcdefg\x00", "abcdefga", "abcdefgab", "\x00abcdef", "\x7f\x7f\x7f\x7f\x7f\x7f\x7f", "\x7f\x7f\x7f\x7f\x7f\x7f\x7f\x7f", "\U0001F600", "z"]
BYTES = [[], [0], [0, 0], [0, 255], [255], [255, 255], [0, 1], [1], [97], [97, 0], [97, 0, 0], [97, 255], [254], [0, 254], [43], [16], [34, 0]]


def universe(rng, thorough):
    tuples = []

    def val(t, x):
        if t == "unit":
            return {"t": "unit"}
        if t in ("string",):
            return {"t": t, "bytes": list(x.encode())}
        if t == "bytes":
            return {"t": t, "bytes": list(x)}
        return {"t": t, "bits": bits(x, 32 if t.endswith("32") else 64)}

    def add(elems):
        tuples.append({"id": len(tuples) + 1, "tuple": [{"f": f, "d": d, "v": val(t, x)} for (f, d, t, x) in elems]})
    extra = 4 if not thorough else 40
    pools = {"u32": ints(rng, 32, False, extra), "u64": ints(rng, 64, False, extra), "i32": ints(rng, 32, True, extra), "i64": ints(rng, 64, True, extra),
             "string": list(STRINGS), "bytes": list(BYTES), "unit": [None]}
    if thorough:
        for _ in range(30):
            n = rng.randrange(0, 10)
            pools["string"].append("".join(chr(rng.choice([0, 1, 0x7f, 0x61, 0x62, 0x100, 0x7ff])) for _ in range(n)))
            pools["bytes"].append([rng.choice([0, 1, 254, 255, 97]) for _ in range(n)])
    # one element: every type, both directions, a few field numbers (tag length boundaries 16*f+d = 128, 16384)
    for t, pool in pools.items():
        for d in (("F", "R") if t != "bytes" else ("F",)):
            for x in pool:
                add([(1, d, t, x)])
    for f in (7, 8, 1023, 1024, 70000):
        for x in pools["u32"][:3]:
            add([(f, "F", "u32", x)])
            add([(f, "R", "u32", x)])
    # two elements: a variable-length first element next to a second element; both directions
    s6 = ["", "a", "a\x00", "ab", "abcdef", "abcdefg"]
    i6 = [-(1 << 63), -257, -1, 0, 255, (1 << 63) - 1]
    u6 = [0, 1, 255, 256, (1 << 32), (1 << 64) - 1]
    for d1 in ("F", "R"):
        for d2 in ("F", "R"):
            for s in s6:
                for n in i6[1:5]:
                    add([(1, d1, "string", s), (2, d2, "i64", n)])
            for n in u6[:4]:
                for s in s6[:4]:
                    add([(1, d1, "u64", n), (2, d2, "string", s)])
            for a in i6[:4]:
                for b in u6[:3]:
                    add([(3, d1, "i64", a), (1, d2, "u64", b)])
    for bs in BYTES[:8]:
        for n in u6[:3]:
            add([(1, "F", "bytes", bs), (2, "F", "u64", n)])
    # the shape of the harness's derived typed key (#[derive(TypedTupleKey)]): u64 asc, string desc, i64 desc, unit
    for a in u6[:3]:
        for sv in s6[:4]:
            for n in i6[1:4]:
                add([(1, "F", "u64", a), (2, "R", "string", sv), (3, "R", "i64", n), (4, "F", "unit", None)])
    # a prefix tuple and its extensions (contiguity): unit-tagged path elements as lsmtk-style keys use them
    for s in s6:
        add([(1, "F", "string", s), (2, "F", "unit", None)])
        add([(1, "F", "string", s), (2, "F", "unit", None), (3, "F", "u32", 7)])
    return tuples


def check(replay=None):
    out = Outcome(PROP)
    wd = vlib.workdir()
    vlib.build_harness()
    rng = random.Random(vlib.seed() * 4099 + 16)
    thorough = vlib.tier() != "quick"
    tuples = universe(rng, thorough)
    if replay:
        body = json.load(open(replay))
        tuples = [dict(t, id=i + 1) for i, t in enumerate(body["tuples"])]
    tp = os.path.join(wd, "tuples.ndjson")
    with open(tp, "w") as f:
        for t in tuples:
            f.write(json.dumps(t) + "\n")
    open_devs = vlib.open_deviations({PROP})
    invs = ["Order1", "Order2", "Contig1", "Contig2", "Delimited", "EmitLine", "EmitFinding"]
    r = run_tlc("MC_TupleKey", cfg_text(constants={"Dev": set(open_devs), "Emit": True}, invariants=invs), wd, "tkey", workers=12, timeout=3000, heap="8g",
                env_extra={"TUPLES": tp})
    text = open(r.out, errors="replace").read()
    byid = {t["id"]: t for t in tuples}
    mis = [json.loads(json.loads('"' + m + '"')) for m in re.findall(r'<<"MISORDER", "(.*)">>', text)]
    if r.violated:
        # the pair at which an order or contiguity property fails is in the counterexample: i, j
        m = re.findall(r"/\\ i = (\d+)\s*\n/\\ j = (\d+)|/\\ j = (\d+)\s*\n/\\ i = (\d+)", text)
        pair = None
        if m:
            g = m[-1]
            pair = (int(g[0] or g[3]), int(g[1] or g[2]))
        path = replay or vlib.save_replay(PROP, "tkey", {"tuples": [byid[pair[0]], byid[pair[1]]] if pair and pair[1] else ([byid[pair[0]]] if pair else []), "violated": r.violated})
        out.violation(path, f"TupleKey.tla: {r.violated} fails for tuples {[json.dumps(byid[k]['tuple'])[:200] for k in (pair or []) if k]}")
    elif not r.ok():
        raise ToolError(f"TLC MC_TupleKey: {r.error} ({r.out})")
    out.add_tlc("MC_TupleKey", r, {"tuples": len(tuples)})
    out.extra["misordered_pairs_in_known_class"] = len(mis)
    # the open finding must still be there, exactly as described (otherwise the file is out of date)
    for k in vlib.load_known():
        if k["property"] == PROP and k["status"] == "open" and k.get("deviation") == "DescStringPrefixTie":
            if mis:
                ex = mis[0]
                out.known(k["id"], f"{k['what']}: e.g. {json.dumps(byid[ex['a']]['tuple'][0]['v'].get('bytes'))} vs {json.dumps(byid[ex['b']]['tuple'][0]['v'].get('bytes'))} descending ({len(mis)} ordered pairs in the universe)")
    # conformance: the real encoders produce exactly the specification's bytes; round trips; hostile input
    files, cnt = vlib.split_lines(r.out, "TKEY", 8, wd, "tkey")
    res = run_vh_parallel([["tkey-replay", f, tp] for f in files], timeout=1800)
    for x in res:
        out.traces += x["evaluations"]
        out.extra["impl_observations_compared"] = out.extra.get("impl_observations_compared", 0) + x["steps"]
        for v in x["violations"]:
            path = replay or vlib.save_replay(PROP, "tkey", {"tuples": [{"tuple": v["tuple"]}], "mismatch": {k: v[k] for k in v if k not in ("tuple",)}})
            out.violation(path, json.dumps(v)[:400])
        for s in x["samples"][:1]:
            if len(out.samples) < 3:
                out.samples.append(json.dumps(s, separators=(",", ":"))[:300])
    out.extra["rule"] = ("every tuple of the universe encoded by TupleKey.tla in both formats and byte-compared with tuple_key / tuple_key2; every ordered pair of same-shape "
                         "tuples compared (order, prefix contiguity); parse(encode(t)) = t; hostile inputs never panic; format 2 decodes only canonical encodings")
    return out.finish("model_checking", ASSUMPTIONS)
