---------------------------- MODULE Trace_Tamper ----------------------------
(* C04, rejection half.  Events of `vh store-tamper`: for a database directory the store produced,  *)
(* every recorded digest (input, output, discard, added, removed) of every transaction in every     *)
(* manifest fragment the verifier processes is altered in one hex digit (the line's CRC is kept      *)
(* valid), one at a time, and the offline verifiers run on the copy.                                 *)
(*   - the untampered copy is accepted (or the verifier asks to back off);                           *)
(*   - ManifestVerifier rejects every alteration outside a fragment's first (roll-up) edit, whose    *)
(*     consistency only the chain can establish;                                                      *)
(*   - LsmVerifier, which follows the chain, rejects every alteration whenever it accepts the        *)
(*     untampered copy outright.                                                                      *)
EXTENDS Naturals, Sequences, TLC, TLCExt, Json, IOUtils
Rec == ndJsonDeserialize(IOEnv.TRACE)
VARIABLES l, base
vars == <<l, base>>
Ev == Rec[l]
G(name, cond) == IF cond THEN TRUE ELSE Print(<<"GUARD-FAILED", name, "line", l>>, FALSE)
Is(e) == l <= Len(Rec) /\ Rec[l].ev = e /\ l' = l + 1
Init == l = 1 /\ base = "none"
Baseline == /\ Is("tamper-baseline")
            /\ G("the verifier accepts what the store produced (C04)", Ev.lsm_verifier \in {"ok", "backoff"})
            /\ base' = Ev.lsm_verifier
Skip == Is("tamper-skip") /\ UNCHANGED base
Tamper == /\ Is("tamper")
          /\ G("ManifestVerifier rejects an altered digest (C04)", Ev.first_edit \/ Ev.manifest_verifier = "rejected")
          \* a fragment's first edit restates the state (it is not a transaction): only its output setsum
          \* is tied to the chain; the listed names of a roll-up are checked by the store itself on open
          /\ G("LsmVerifier rejects an altered digest of a transaction (C04)",
               (base = "ok" /\ (~Ev.first_edit \/ Ev.field = "O")) => Ev.lsm_verifier = "rejected")
          /\ G("no verifier panics on altered input (C09)", Ev.manifest_verifier # "panic" /\ Ev.lsm_verifier # "panic")
          /\ UNCHANGED base
TraceNext == Baseline \/ Skip \/ Tamper
TraceSpec == Init /\ [][TraceNext]_vars
TraceAccepted ==
  LET d == TLCGet("stats").diameter IN
  IF d - 1 = Len(Rec) THEN TRUE
  ELSE Print(<<"TRACE-REJECTED", "matched", d - 1, "of", Len(Rec), "next", ToJson(Rec[d])>>, FALSE)
=============================================================================
