------------------------------- MODULE TupleKey -------------------------------
(***************************************************************************)
(* The two tuple-key encodings (C16) as functions from typed tuples to     *)
(* byte sequences, and the order they are meant to preserve.               *)
(*                                                                         *)
(* Values are kept as bit sequences (most significant bit first), so that  *)
(* 64-bit quantities are exact in TLC:                                     *)
(*   [t |-> "unit"]                                                        *)
(*   [t |-> "u32" | "u64" | "i32" | "i64", bits |-> 32 or 64 bits]         *)
(*      (signed: two's complement)                                         *)
(*   [t |-> "string" | "bytes", bytes |-> sequence of 0..255]              *)
(* An element of a tuple is [f |-> field number, v |-> value, d |-> "F"    *)
(* (ascending) | "R" (descending)].                                         *)
(*                                                                         *)
(* Format 1 (tuple_key): every element is a TAG (the varint of             *)
(* field << 4 | discriminant(type, direction), each byte rotated left so   *)
(* that the varint continuation bit becomes the byte's lowest bit)         *)
(* followed by the VALUE in groups of seven bits, each byte holding a      *)
(* group in its upper bits and a continuation flag (1 = more) in its       *)
(* lowest bit.  A descending element has the seven data bits of every      *)
(* value byte complemented (reverse_encoding).                             *)
(* Format 2 (tuple_key2): no tags or directions; integers are a length tag *)
(* and the minimal big-endian bytes, byte strings escape 0x00 as 0x00 0xff *)
(* and end with 0x00 0x00.                                                 *)
(***************************************************************************)
EXTENDS Naturals, Integers, Sequences, FiniteSets, TLC

(* ------------------------------ bits and bytes --------------------------- *)
RECURSIVE BitsVal(_)
BitsVal(b) == IF b = <<>> THEN 0 ELSE 2 * BitsVal(SubSeq(b, 1, Len(b) - 1)) + b[Len(b)]      \* at most 8 bits here
ByteBits(n) == [i \in 1..8 |-> (n \div (2 ^ (8 - i))) % 2]
RECURSIVE Flatten(_)
Flatten(ss) == IF ss = <<>> THEN <<>> ELSE Head(ss) \o Flatten(Tail(ss))
BytesBits(bs) == Flatten([i \in 1..Len(bs) |-> ByteBits(bs[i])])
Pad(b, n) == b \o [i \in 1..(n - Len(b)) |-> 0]
Not(b) == [i \in 1..Len(b) |-> 1 - b[i]]
\* lexicographic comparison of sequences of naturals: -1, 0, 1
RECURSIVE Cmp(_, _)
Cmp(a, b) == IF a = <<>> /\ b = <<>> THEN 0
             ELSE IF a = <<>> THEN -1 ELSE IF b = <<>> THEN 1
             ELSE IF Head(a) < Head(b) THEN -1 ELSE IF Head(a) > Head(b) THEN 1
             ELSE Cmp(Tail(a), Tail(b))

(* ------------------------------- the order ------------------------------- *)
\* numeric order of fixed-width values is the order of their bit strings once the sign bit of a signed
\* value is inverted
OrdBits(v) == IF v.t \in {"i32", "i64"} THEN <<1 - v.bits[1]>> \o Tail(v.bits) ELSE v.bits
CmpValue(a, b) == IF a.t = "unit" THEN 0
                  ELSE IF a.t \in {"string", "bytes"} THEN Cmp(a.bytes, b.bytes)
                  ELSE Cmp(OrdBits(a), OrdBits(b))
CmpElem(a, b) == IF a.d = "R" THEN 0 - CmpValue(a.v, b.v) ELSE CmpValue(a.v, b.v)
\* tuples of the same shape, or one a prefix (in shape) of the other: element by element, the shorter first
RECURSIVE CmpTuple(_, _)
CmpTuple(s, t) == IF s = <<>> /\ t = <<>> THEN 0
                  ELSE IF s = <<>> THEN -1 ELSE IF t = <<>> THEN 1
                  ELSE LET c == CmpElem(Head(s), Head(t)) IN IF c # 0 THEN c ELSE CmpTuple(Tail(s), Tail(t))

(* -------------------------------- format 1 ------------------------------- *)
Disc(t, d) == (CASE t = "unit" -> 1 [] t = "u32" -> 2 [] t = "u64" -> 3 [] t = "i32" -> 4 [] t = "i64" -> 5 [] t = "string" -> 6)
              + (IF d = "R" THEN 8 ELSE 0)
\* varint, least significant group first; a byte rotated left by one: the seven data bits end up in the
\* upper bits, the continuation bit in the lowest
RECURSIVE TagBytes(_)
TagBytes(x) == IF x < 128 THEN <<2 * x>> ELSE <<2 * (x % 128) + 1>> \o TagBytes(x \div 128)
Tag1(f, t, d) == TagBytes(16 * f + Disc(t, d))
\* groups of seven bits: every byte but the last has flag 1; the last holds the remaining 1..7 bits left aligned
RECURSIVE Groups7(_)
Groups7(b) == IF Len(b) <= 7 THEN <<BitsVal(Pad(b, 7) \o <<0>>)>>
              ELSE <<BitsVal(SubSeq(b, 1, 7) \o <<1>>)>> \o Groups7(SubSeq(b, 8, Len(b)))
Val1F(v) == IF v.t = "unit" THEN <<0>>
            ELSE IF v.t = "string" THEN (IF v.bytes = <<>> THEN <<0>> ELSE Groups7(BytesBits(v.bytes)))
            ELSE Groups7(OrdBits(v))
Reverse1(bs) == [i \in 1..Len(bs) |-> (254 - (bs[i] - (bs[i] % 2))) + (bs[i] % 2)]
Val1(v, d) == IF d = "R" THEN Reverse1(Val1F(v)) ELSE Val1F(v)
Elem1(e) == Tag1(e.f, e.v.t, e.d) \o Val1(e.v, e.d)
Enc1(tuple) == Flatten([i \in 1..Len(tuple) |-> Elem1(tuple[i])])

(* -------------------------------- format 2 ------------------------------- *)
\* the value of a bit string, as big-endian bytes without leading zero bytes
RECURSIVE StripZeros(_)
StripZeros(bs) == IF bs # <<>> /\ Head(bs) = 0 THEN StripZeros(Tail(bs)) ELSE bs
BitsBytes(b) == [i \in 1..(Len(b) \div 8) |-> BitsVal(SubSeq(b, 8 * i - 7, 8 * i))]
Widen(v) == IF v.t \in {"i32", "i64"} THEN [i \in 1..(64 - Len(v.bits)) |-> v.bits[1]] \o v.bits      \* sign extension
            ELSE [i \in 1..(64 - Len(v.bits)) |-> 0] \o v.bits
LastN(s, n) == SubSeq(s, Len(s) - n + 1, Len(s))
Escape(bs) == Flatten([i \in 1..Len(bs) |-> IF bs[i] = 0 THEN <<0, 255>> ELSE <<bs[i]>>]) \o <<0, 0>>
Val2(v) ==
  IF v.t = "unit" THEN <<43>>
  ELSE IF v.t \in {"string", "bytes"} THEN Escape(v.bytes)
  ELSE LET w == Widen(v) IN
       IF v.t \in {"u32", "u64"} THEN LET m == StripZeros(BitsBytes(w)) IN <<34 + Len(m)>> \o m
       ELSE IF w[1] = 0 THEN LET m == StripZeros(BitsBytes(w)) IN <<25 + Len(m)>> \o m
       ELSE \* negative: the magnitude is the complement; its minimal length decides the tag, the payload is the
            \* low bytes of the value itself
            LET n == Len(StripZeros(BitsBytes(Not(w)))) IN <<16 + (8 - n)>> \o LastN(BitsBytes(w), n)
Enc2(tuple) == Flatten([i \in 1..Len(tuple) |-> Val2(tuple[i].v)])

(* ------------------------------- properties ------------------------------ *)
Sign(x) == IF x < 0 THEN -1 ELSE IF x > 0 THEN 1 ELSE 0
\* same shape: same field numbers, types and directions position by position (the shorter a prefix of the longer)
SameShape(s, t) == \A i \in 1..(IF Len(s) < Len(t) THEN Len(s) ELSE Len(t)) :
                     s[i].f = t[i].f /\ s[i].v.t = t[i].v.t /\ s[i].d = t[i].d
OrderPreserved1(s, t) == Cmp(Enc1(s), Enc1(t)) = CmpTuple(s, t)
OrderPreserved2(s, t) == Cmp(Enc2(s), Enc2(t)) = CmpTuple(s, t)
\* keys with a common prefix stay contiguous: an extension of s sorts after s and before everything after s
Contiguous1(s, ext, u) == /\ Cmp(Enc1(s), Enc1(s \o ext)) = -1
                          /\ (Len(u) = Len(s) /\ CmpTuple(s, u) = -1) => Cmp(Enc1(s \o ext), Enc1(u)) = -1
Contiguous2(s, ext, u) == /\ Cmp(Enc2(s), Enc2(s \o ext)) = -1
                          /\ (Len(u) = Len(s) /\ CmpTuple(s, u) = -1) => Cmp(Enc2(s \o ext), Enc2(u)) = -1
\* every element encoding of format 1 is self-delimiting: flags 1 ... 1 0
SelfDelimiting1(e) == LET bs == Val1(e.v, e.d) IN bs[Len(bs)] % 2 = 0 /\ \A i \in 1..(Len(bs) - 1) : bs[i] % 2 = 1

(* The finding: a descending string that is a proper prefix of another whose continuation starts with zero bits.   *)
(* The complement turns the shorter one's padding into ones and the longer one's zero bits into ones as well; the   *)
(* tie is then broken by the continuation flag, which is not complemented: the shorter sorts first, as if ascending. *)
IsPrefix(a, b) == Len(a) < Len(b) /\ SubSeq(b, 1, Len(a)) = a
\* a is a proper prefix of b: the last group of a holds k bits; the same group of b continues with 7 - k bits of
\* the rest of b; the encodings tie on the data bits exactly when those are all zero
TieBits(a, b) == LET A == 8 * Len(a)
                     n == (A + 6) \div 7
                     k == IF A = 0 THEN 0 ELSE A - 7 * (n - 1)
                     bb == BytesBits(b)
                 IN \A i \in (A + 1)..(A + 7 - k) : i <= Len(bb) => bb[i] = 0
DescStringPrefixTie(s, t) ==
  \E i \in 1..(IF Len(s) < Len(t) THEN Len(s) ELSE Len(t)) :
     /\ s[i].v.t = "string" /\ s[i].d = "R"
     /\ \/ (IsPrefix(s[i].v.bytes, t[i].v.bytes) /\ TieBits(s[i].v.bytes, t[i].v.bytes))
        \/ (IsPrefix(t[i].v.bytes, s[i].v.bytes) /\ TieBits(t[i].v.bytes, s[i].v.bytes))
     /\ \A j \in 1..(i - 1) : CmpElem(s[j], t[j]) = 0
=============================================================================
