---------------------------- MODULE Trace_Collector ----------------------------
(***************************************************************************)
(* Trace validation of sync42::collector::Collector against the abstract   *)
(* grace-period rule that Collector.tla's GracePeriod states (extension,   *)
(* run by bin/extras).                                                     *)
(*                                                                         *)
(* Events, merged by a global sequence number taken at the points named:   *)
(*   exit t      after register/online/quiescent returned on thread t: a   *)
(*               critical interval begins                                  *)
(*   enter t     before t calls quiescent/offline/drops its state: the     *)
(*               interval ends                                             *)
(*   collect t g before t hands g to collect()                             *)
(*   cleanup g   inside g's clean-up closure                               *)
(*   end         every thread has called quiescent twice more and left     *)
(*   reset       next run                                                  *)
(* A clean-up is wrong if some thread is inside an interval that began     *)
(* before the collect: with these stamping points that is sound (the true  *)
(* interval begins no later than its exit stamp and ends no earlier than   *)
(* its enter stamp).                                                       *)
(***************************************************************************)
EXTENDS Naturals, Sequences, FiniteSets, TLC, TLCExt, Json, IOUtils

Rec == ndJsonDeserialize(IOEnv.TRACE)

VARIABLES l, open, collected, cleaned
vars == <<l, open, collected, cleaned>>

Ev == Rec[l]
G(name, cond) == IF cond THEN TRUE ELSE Print(<<"GUARD-FAILED", name, "line", l>>, FALSE)
Is(e) == l <= Len(Rec) /\ Rec[l].ev = e /\ l' = l + 1

Init == l = 1 /\ open = <<>> /\ collected = <<>> /\ cleaned = {}

Reset == Is("reset") /\ open' = <<>> /\ collected' = <<>> /\ cleaned' = {}
Exit == /\ Is("exit")
        /\ G("a thread is in one interval at a time", Ev.t \notin DOMAIN open)
        /\ open' = (Ev.t :> l) @@ open /\ UNCHANGED <<collected, cleaned>>
Enter == /\ Is("enter")
         /\ G("an interval ends only if it began", Ev.t \in DOMAIN open)
         /\ open' = [t \in DOMAIN open \ {Ev.t} |-> open[t]] /\ UNCHANGED <<collected, cleaned>>
Collect == /\ Is("collect")
           /\ G("garbage is handed over from inside an interval", Ev.t \in DOMAIN open)
           /\ G("garbage is handed over once", Ev.g \notin DOMAIN collected)
           /\ collected' = (Ev.g :> l) @@ collected /\ UNCHANGED <<open, cleaned>>
Cleanup == /\ Is("cleanup")
           /\ G("only collected garbage is cleaned", Ev.g \in DOMAIN collected)
           /\ G("garbage is cleaned once", Ev.g \notin cleaned)
           /\ G("grace period: no thread is inside an interval that began before the collect",
                \A t \in DOMAIN open : open[t] > collected[Ev.g])
           /\ cleaned' = cleaned \cup {Ev.g} /\ UNCHANGED <<open, collected>>
End == /\ Is("end")
       /\ G("after two more rounds of quiescent by every thread nothing is left", DOMAIN collected \subseteq cleaned)
       /\ UNCHANGED <<open, collected, cleaned>>

TraceNext == Reset \/ Exit \/ Enter \/ Collect \/ Cleanup \/ End
TraceSpec == Init /\ [][TraceNext]_vars
TraceAccepted ==
  LET d == TLCGet("stats").diameter IN
  IF d - 1 = Len(Rec) THEN TRUE
  ELSE Print(<<"TRACE-REJECTED", "matched", d - 1, "of", Len(Rec), "next", ToJson(Rec[d])>>, FALSE)
=============================================================================
