---------------------------- MODULE MC_StateTable ----------------------------
(* StateTable.tla with get_or_create taken in one step and a history of the calls and their outcomes, printed  *)
(* for replay against sync42::state_hash_table::StateHashTable (a handle owner = a slot in the harness).       *)
EXTENDS StateTable, Json
VARIABLE hist
mvars == <<vars, hist>>
Rec(op, t, k, g) == [op |-> op, t |-> t, k |-> k, g |-> g]
MInit == Init /\ hist = <<>>
Holding(t, k) == \E h \in held[t] : h.k = k
\* a slot holds at most one handle per key (the harness keeps one handle per slot and key)
MCreate(t, k) == ~Holding(t, k) /\ Create(t, k) /\ hist' = Append(hist, Rec("create", t, k, IF table[k] = 0 THEN nextGen ELSE 0))
MGet(t, k) == ~Holding(t, k) /\ Get(t, k) /\ hist' = Append(hist, Rec("get", t, k, table[k]))
MGoc(t, k) == /\ ~Holding(t, k) /\ pc[t] = "idle" /\ ops < MaxOps /\ nextGen <= MaxGen /\ ops' = ops + 1
              /\ IF table[k] # 0
                 THEN held' = [held EXCEPT ![t] = @ \cup {[k |-> k, g |-> table[k]]}] /\ UNCHANGED <<table, nextGen>>
                 ELSE /\ table' = [table EXCEPT ![k] = nextGen] /\ held' = [held EXCEPT ![t] = @ \cup {[k |-> k, g |-> nextGen]}]
                      /\ nextGen' = nextGen + 1
              /\ hist' = Append(hist, Rec("goc", t, k, IF table[k] # 0 THEN table[k] ELSE nextGen))
              /\ UNCHANGED <<finished, pc, tk, tv, removed>>
MFinish(t, k) == /\ \E h \in held[t] : h.k = k /\ finished' = finished \cup {h.g}
                 /\ hist' = Append(hist, Rec("finish", t, k, 0)) /\ ops < MaxOps /\ ops' = ops + 1
                 /\ UNCHANGED <<table, held, pc, tk, tv, nextGen, removed>>
MDrop(t, k) == /\ \E h \in held[t] : h.k = k
                    /\ held' = [held EXCEPT ![t] = @ \ {h}]
                    /\ IF Refs(h.g) = 1 /\ h.g \in finished /\ table[h.k] = h.g
                       THEN table' = [table EXCEPT ![h.k] = 0] /\ removed' = removed \cup {h.g}
                       ELSE UNCHANGED <<table, removed>>
               /\ hist' = Append(hist, Rec("drop", t, k, 0)) /\ ops < MaxOps /\ ops' = ops + 1
               /\ UNCHANGED <<finished, pc, tk, tv, nextGen>>
MNext == \E t \in Threads, k \in Keys : MCreate(t, k) \/ MGet(t, k) \/ MGoc(t, k) \/ MFinish(t, k) \/ MDrop(t, k)
MSpec == MInit /\ [][MNext]_mvars
\* generations are compared up to renaming: the harness numbers values in the order it sees new ones
Emit == (ops = MaxOps) => PrintT(<<"STAB", ToJson(hist)>>)
View == <<table, finished, held, nextGen, ops, removed, hist>>
=============================================================================
