------------------------------- MODULE Setsum -------------------------------
(***************************************************************************)
(* The setsum of setsum/src/lib.rs: eight columns, each an element of      *)
(* Z_p for one of eight primes just below 2^32, stored in a u32.           *)
(* TLC integers are 32-bit, so a column value x is the pair [h, l] of its  *)
(* 16-bit limbs (x = h * 65536 + l); intermediate sums may carry into h.   *)
(*                                                                         *)
(* add_state / invert_state / hash_to_state / digest / from_digest are     *)
(* transcribed with the machine effects that matter: `as u32` truncation   *)
(* and the overflow check on `p - x` (panic in checked builds, wrap in     *)
(* unchecked ones).  Dev "FromDigestKeepsNonCanonical" is the code as      *)
(* found: from_digest copies the four bytes of a column unreduced, so      *)
(* columns in p..2^32-1 are reachable.                                     *)
(***************************************************************************)
EXTENDS Naturals, Integers, Sequences, FiniteSets, TLC

CONSTANT Dev

Limb == 65536
\* the eight primes 2^32 - d
PrimeDelta == <<5, 17, 65, 99, 107, 135, 153, 185>>
P(i) == [h |-> 65535, l |-> Limb - PrimeDelta[i]]

Norm(h, l) == [h |-> h + (l \div Limb), l |-> l % Limb]
AddX(a, b) == Norm(a.h + b.h, a.l + b.l)                       \* exact u64 sum (h may reach 2^17)
Geq(a, b)  == a.h > b.h \/ (a.h = b.h /\ a.l >= b.l)
SubX(a, b) == IF a.l >= b.l THEN [h |-> a.h - b.h, l |-> a.l - b.l]     \* requires a >= b
              ELSE [h |-> a.h - b.h - 1, l |-> a.l + Limb - b.l]
Trunc32(a) == [h |-> a.h % Limb, l |-> a.l]                    \* `as u32`
Zero == [h |-> 0, l |-> 0]
PANIC == [h |-> -1, l |-> -1]
IsPanic(a) == a.h < 0

\* add_state, one column
AddCol(i, a, b) ==
  IF IsPanic(a) \/ IsPanic(b) THEN PANIC
  ELSE LET sum == AddX(a, b) IN Trunc32(IF Geq(sum, P(i)) THEN SubX(sum, P(i)) ELSE sum)

\* invert_state, one column: SETSUM_PRIMES[i] - state[i] on u32
Checked == "UncheckedArithmetic" \notin Dev
InvCol(i, a) ==
  IF IsPanic(a) THEN PANIC
  ELSE IF Geq(P(i), a) THEN SubX(P(i), a)
  ELSE IF Checked THEN PANIC                                    \* attempt to subtract with overflow
  ELSE SubX(AddX(P(i), [h |-> Limb, l |-> 0]), a)               \* wraps modulo 2^32

SubCol(i, a, b) == AddCol(i, a, InvCol(i, b))

Canon(i, a) == IF Geq(a, P(i)) THEN SubX(a, P(i)) ELSE a       \* one conditional subtraction (hash_to_state)
IsCanon(i, a) == ~Geq(a, P(i))

\* from_digest of a column value (as found: unreduced; repaired: reduced like hash_to_state)
FromDigestCol(i, a) == IF "FromDigestKeepsNonCanonical" \in Dev THEN a ELSE Canon(i, a)

\* little-endian bytes of a column and back
ColBytes(a) == <<a.l % 256, a.l \div 256, a.h % 256, a.h \div 256>>
BytesCol(b) == [h |-> b[3] + 256 * b[4], l |-> b[1] + 256 * b[2]]

\* whole states: sequences of 8 columns
AddState(x, y) == [i \in 1..8 |-> AddCol(i, x[i], y[i])]
InvState(x)    == [i \in 1..8 |-> InvCol(i, x[i])]
SubState(x, y) == AddState(x, InvState(y))
ZeroState      == [i \in 1..8 |-> Zero]
HashToState(hash) == [i \in 1..8 |-> Canon(i, BytesCol(SubSeq(hash, 4 * i - 3, 4 * i)))]
Digest(x) == ColBytes(x[1]) \o ColBytes(x[2]) \o ColBytes(x[3]) \o ColBytes(x[4])
             \o ColBytes(x[5]) \o ColBytes(x[6]) \o ColBytes(x[7]) \o ColBytes(x[8])
FromDigest(d) == [i \in 1..8 |-> FromDigestCol(i, BytesCol(SubSeq(d, 4 * i - 3, 4 * i)))]
HexDigit(n) == SubSeq("0123456789abcdef", n + 1, n + 1)

\* the value of a column as a mathematical residue, for stating the laws: two columns are the
\* same group element iff their canonical forms agree
Same(i, a, b) == ~IsPanic(a) /\ ~IsPanic(b) /\ Canon(i, Canon(i, a)) = Canon(i, Canon(i, b))
=============================================================================
