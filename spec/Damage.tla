-------------------------------- MODULE Damage --------------------------------
(***************************************************************************)
(* Damage to persistent files (C09): the three on-disk formats as          *)
(* sequences of REGIONS, the kinds of damage, and what a reader may do     *)
(* with a damaged file.                                                    *)
(*                                                                         *)
(*   sst  : data block* ; index block ; filter block ; final block ;       *)
(*          trailing 8-byte offset.  Every data, index and filter block    *)
(*          carries a CRC32C kept in the block that points to it (index    *)
(*          entries, final block); the final block and the trailer carry   *)
(*          none, they are only sanity checked (sst/src/lib.rs).           *)
(*   log  : frames = length byte ; header (size, discriminant, crc) ;      *)
(*          body ; zero padding up to a 1 MiB boundary.  The CRC covers    *)
(*          the body only (sst/src/log.rs).                                *)
(*   mani : lines = 8 hex digits of CRC32C ; payload ; newline, grouped    *)
(*          into transactions by a separator line (mani/src/lib.rs).       *)
(*                                                                         *)
(* A reader operation ends "ok" or "error"; it has handed out `delivered`  *)
(* items before that (entries, edits).  `exact` says that everything it    *)
(* handed out equals the pristine file's items at the same positions, and  *)
(* `same` that it ended ok having handed out exactly the pristine items.   *)
(* The rule of C09: an operation on a damaged file ends in an error or is  *)
(* `same`; whatever it handed out before an error is `exact`; it never     *)
(* panics.  Append-only files (log, manifest) cannot tell a truncation at  *)
(* a record boundary from a crash before the later appends: for them a     *)
(* truncation may also end ok with an exact prefix (C12, C13 say which).   *)
(***************************************************************************)
EXTENDS Naturals, Sequences, FiniteSets, TLC

FileKinds == {"sst", "log", "mani", "store"}     \* "store": a whole lsmtk directory, one of its files damaged
RegionKinds(f) == CASE f = "sst" -> {"data", "index", "filter", "final", "trailer"}
                    [] f = "log" -> {"hlen", "header", "body", "pad"}
                    [] f = "mani" -> {"crc", "payload", "nl", "sep", "sepnl"}
                    [] f = "store" -> {"sst", "mani", "log"}                      \* its files; their regions are those above
\* regions whose every byte is under a checksum the reader verifies before using it
Covered(f, rk) == CASE f = "sst" -> rk \in {"data", "index", "filter"}
                    [] f = "log" -> rk \in {"body"}
                    [] f = "mani" -> rk \in {"payload"}
                    [] f = "store" -> FALSE
AppendOnly(f) == f \in {"log", "mani"}
DamageKinds == {"flip", "over", "trunc", "extend"}
\* position classes inside a region, and which of several regions of one kind
PosClasses == {"first", "second", "mid", "penult", "last"}
Which == {"first", "mid", "last"}

(* ------------------------- what a reader may do ------------------------- *)
Terminates(op) == op.status \in {"ok", "error"}            \* not "panic" (an abort or a hang kills the harness: reported there)
HandsOut(op) == "delivered" \in DOMAIN op
\* damage that a later truncation cut off again (`cut`), or an overwrite with the byte already there (`noop`), did not happen
OnlyTruncated(dmgs) == \A i \in 1..Len(dmgs) : dmgs[i].kind = "trunc" \/ dmgs[i].cut \/ dmgs[i].noop
Noop(dmgs) == \A i \in 1..Len(dmgs) : dmgs[i].noop

\* an operation that returns no data (opening an sst) is trivially the same
IsSame(op) == IF "same" \in DOMAIN op THEN op.same ELSE TRUE
HasTruncation(dmgs) == \E i \in 1..Len(dmgs) : dmgs[i].kind = "trunc"
\* C09 for one operation on a file damaged by `dmgs`.  For an append-only file that was (also) truncated, `base` is
\* what the same reader did with the file truncated only: further damage may turn that into an error, not into
\* anything else.
Sound(f, dmgs, op) ==
  /\ Terminates(op)
  /\ (HandsOut(op) => op.exact)
  /\ (op.status = "ok" =>
        \/ IsSame(op)
        \/ (AppendOnly(f) /\ OnlyTruncated(dmgs) /\ (HandsOut(op) => op.exact) /\ ("prefix" \in DOMAIN op => op.prefix >= 0))
        \/ (AppendOnly(f) /\ HasTruncation(dmgs) /\ "base" \in DOMAIN op /\ op.base >= 0
             /\ (HandsOut(op) => op.exact /\ op.delivered = op.base) /\ ("prefix" \in DOMAIN op => op.prefix = op.base)))
\* an undamaged file (an overwrite with the byte already there) reads as before
Unchanged(op) == op.status = "ok" /\ ("same" \in DOMAIN op => op.same)

\* informative classification (not demanded by C09): did the reader notice?
Noticed(ops) == \E i \in 1..Len(ops) : ops[i].status = "error"

(* The open finding FinalBlockSteersStore: lsmtk takes an sst's smallest / biggest timestamp and setsum from the    *)
(* file's final block, which no checksum covers, and derives from them the next sequence number, the read          *)
(* timestamp and the order of files during recovery.  Damage there can leave every file readable and still change  *)
(* what point reads return.  The class: a whole store, every effective damage inside the final block of an sst,     *)
(* and a read that completed with different data.                                                                  *)
Effective(d) == ~d.noop /\ ~d.cut
FinalBlockSteersStore(f, dmgs, op) ==
  /\ f = "store" /\ op.op \in {"get", "scan"} /\ op.status = "ok"
  /\ \A i \in 1..Len(dmgs) : Effective(dmgs[i]) => (dmgs[i].target = "sst" /\ dmgs[i].rkind = "final")

\* operations that judge the data; "meta" reads the unchecksummed final block's summary fields (setsum,
\* smallest / biggest timestamp) which C09 does not list: it must terminate, nothing more
Judged(f, op) == ~(f = "sst" /\ op.op = "meta")
=============================================================================
