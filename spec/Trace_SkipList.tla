--------------------------- MODULE Trace_SkipList ---------------------------
(* Validation of stress traces of skipfree::SkipList and listfree::List (C17).                    *)
(* Events (one total order from an atomic counter): ib/ie = an insert (prepend) of key k begins / *)
(* has returned; rb = a reader's operation begins; iter / seek / contains / liter = it ends, with *)
(* what it saw; final / lfinal = the contents once every thread has finished.                     *)
(* What SkipList.tla establishes on the model is demanded of every observed operation:           *)
(*   - an iteration is strictly ordered (each key once), contains every key whose insert had     *)
(*     returned before it began, and only keys whose insert had begun before it ended;           *)
(*   - seek(k) lands on the nearest existing key at or after k: no key in [k, result) had been   *)
(*     inserted before the seek began;  contains(k) is true for a returned insert, false for one *)
(*     not begun;                                                                                *)
(*   - the prepend-only list shows each element once, every returned prepend, and a prepend that *)
(*     returned before another began comes after it (newest first).                              *)
EXTENDS Naturals, Sequences, FiniteSets, TLC, TLCExt, Json, IOUtils
Rec == ndJsonDeserialize(IOEnv.TRACE)
VARIABLES l, begun, done, rdone, order
vars == <<l, begun, done, rdone, order>>
Ev == Rec[l]
G(name, cond) == IF cond THEN TRUE ELSE Print(<<"GUARD-FAILED", name, "line", l>>, FALSE)
Is(e) == l <= Len(Rec) /\ Rec[l].ev = e /\ l' = l + 1
Set(s) == {s[i] : i \in 1..Len(s)}

Init == l = 1 /\ begun = {} /\ done = {} /\ rdone = <<>> /\ order = {}
Start == Is("start") /\ begun' = {} /\ done' = {} /\ rdone' = [r \in 1..Ev.readers |-> {}] /\ order' = {}
IB == Is("ib") /\ begun' = begun \cup {Ev.k}
      \* every prepend already returned precedes this one in real time
      /\ order' = order \cup {<<d, Ev.k>> : d \in done}
      /\ UNCHANGED <<done, rdone>>
IE == Is("ie") /\ done' = done \cup {Ev.k} /\ UNCHANGED <<begun, rdone, order>>
RB == Is("rb") /\ rdone' = [rdone EXCEPT ![Ev.r] = done] /\ UNCHANGED <<begun, done, order>>
Iter == /\ Is("iter")
        /\ G("iteration in strict key order, each key once (C17)",
             \A a, b \in 1..Len(Ev.keys) : a < b => IF Ev.dir = "fwd" THEN Ev.keys[a] < Ev.keys[b] ELSE Ev.keys[a] > Ev.keys[b])
        /\ G("iteration shows every insert that had returned before it began (C17)", rdone[Ev.r] \subseteq Set(Ev.keys))
        /\ G("iteration shows only inserted keys with their values (C17)", Set(Ev.keys) \subseteq begun)
        /\ UNCHANGED <<begun, done, rdone, order>>
Seek == /\ Is("seek")
        /\ G("seek lands at or after the target on an inserted key (C17)", Ev.got = 0 \/ (Ev.got >= Ev.k /\ Ev.got \in begun))
        /\ G("seek does not skip a key inserted before it began (C17)",
             \A d \in rdone[Ev.r] : d >= Ev.k => (Ev.got # 0 /\ Ev.got <= d))
        /\ UNCHANGED <<begun, done, rdone, order>>
Contains == /\ Is("contains")
            /\ G("contains finds every returned insert and nothing that was not inserted (C17)",
                 (Ev.k \in rdone[Ev.r] => Ev.got) /\ (Ev.got => Ev.k \in begun))
            /\ UNCHANGED <<begun, done, rdone, order>>
Final == /\ Is("final")
         /\ G("at the end the list holds exactly the inserted keys in order (C17)",
              Ev.keys = [i \in 1..Ev.nkeys |-> i] /\ done = 1..Ev.nkeys)
         /\ UNCHANGED <<begun, done, rdone, order>>
Pos(s, x) == CHOOSE i \in 1..Len(s) : s[i] = x
LIter == /\ (Is("liter") \/ Is("lfinal"))
         /\ G("list iteration shows each element once (C17)", Cardinality(Set(Ev.keys)) = Len(Ev.keys))
         /\ G("list iteration shows every returned prepend, only prepended elements (C17)",
              (IF Ev.ev = "lfinal" THEN done ELSE rdone[Ev.r]) \subseteq Set(Ev.keys) /\ Set(Ev.keys) \subseteq begun)
         /\ G("newest first: an element prepended after another had returned comes before it (C17)",
              \A p \in order : (p[1] \in Set(Ev.keys) /\ p[2] \in Set(Ev.keys)) => Pos(Ev.keys, p[2]) < Pos(Ev.keys, p[1]))
         /\ G("at the end the list holds every element", Ev.ev = "lfinal" => Len(Ev.keys) = Ev.nkeys)
         /\ UNCHANGED <<begun, done, rdone, order>>
\* ownership (SkipList.tla DropList / REnd / IterValidWhileHeld): the SkipList handle is dropped while an
\* iterator is held; no node may be deallocated until the iterator goes too
DropList == /\ Is("droplist")
            /\ G("dropping the skip list frees nothing while an iterator is held (C17: an iterator remains valid for as long as it is held)",
                 Ev.held = 1 => Ev.freed = 0)
            /\ UNCHANGED <<begun, done, rdone, order>>
HeldIter == /\ Is("helditer")
            /\ G("a held iterator still yields every key after the list handle is gone (C17)", Ev.keys = [i \in 1..Ev.nkeys |-> i])
            /\ UNCHANGED <<begun, done, rdone, order>>
DropIter == Is("dropiter") /\ UNCHANGED <<begun, done, rdone, order>>
End == Is("end") /\ UNCHANGED <<begun, done, rdone, order>>
TraceNext == Start \/ IB \/ IE \/ RB \/ Iter \/ Seek \/ Contains \/ Final \/ LIter \/ DropList \/ HeldIter \/ DropIter \/ End
TraceSpec == Init /\ [][TraceNext]_vars
TraceAccepted ==
  LET d == TLCGet("stats").diameter IN
  IF d - 1 = Len(Rec) THEN TRUE
  ELSE Print(<<"TRACE-REJECTED", "matched", d - 1, "of", Len(Rec), "next", ToJson(Rec[d])>>, FALSE)
=============================================================================
