------------------------------- MODULE MC_Text -------------------------------
(* Text.tla over (a) every text up to length MaxLen over the alphabet 1..Alpha with every division into      *)
(* records and every needle up to MaxNeedle over 1..(Alpha+1) (the extra symbol is absent from every text),  *)
(* (b) every bit pattern up to MaxBits, and (c) documents and bit patterns supplied as data (IOEnv.DOCS,     *)
(* IOEnv.BITS), with the needles / positions to ask about.  One state per case; the expected answers are     *)
(* printed for replay against scrunch.                                                                        *)
EXTENDS Text, Integers, Json, IOUtils, TLC, SequencesExt
CONSTANTS Alpha, MaxLen, MaxNeedle, MaxBits, Mode
Docs == IF Mode = "data" THEN ndJsonDeserialize(IOEnv.DOCS) ELSE <<>>
BitsData == IF Mode = "data" THEN ndJsonDeserialize(IOEnv.BITS) ELSE <<>>
Seqs(S, n) == UNION {[1..k -> S] : k \in 0..n}
\* strictly increasing start offsets beginning with 0, as a set of offsets, turned into a sequence
SortedSeq(S) == SetToSortSeq(S, LAMBDA a, b : a < b)
VARIABLES kind, text, starts, bits, idx
vars == <<kind, text, starts, bits, idx>>
Init == \/ /\ Mode = "small" /\ kind = "doc" /\ idx = 0 /\ bits = <<>>
           /\ text \in (Seqs(1..Alpha, MaxLen) \ {<<>>})
           /\ \E rest \in SUBSET (1..(Len(text) - 1)) : starts = SortedSeq({0} \cup rest)
        \/ /\ Mode = "small" /\ kind = "bits" /\ idx = 0 /\ text = <<>> /\ starts = <<>>
           /\ bits \in Seqs({0, 1}, MaxBits)
        \/ /\ Mode = "data" /\ kind = "doc" /\ idx \in 1..Len(Docs) /\ text = Docs[idx].text /\ starts = Docs[idx].starts /\ bits = <<>>
        \/ /\ Mode = "data" /\ kind = "bits" /\ idx \in 1..Len(BitsData) /\ bits = BitsData[idx].bits /\ text = <<>> /\ starts = <<>>
Next == UNCHANGED vars
Spec == Init /\ [][Next]_vars
Needles == IF Mode = "small" THEN Seqs(1..(Alpha + 1), MaxNeedle) ELSE {Docs[idx].needles[n] : n \in 1..Len(Docs[idx].needles)}
NeedleSeq == SetToSeq(Needles)
DocOK == kind = "doc" => WellFormed(text, starts) /\ Tiles(text, starts)
EmitDoc == kind = "doc" =>
  PrintT(<<"TEXT", ToJson([text |-> text, starts |-> starts, len |-> Len(text), records |-> Records(starts),
      queries |-> [n \in 1..Len(NeedleSeq) |-> [needle |-> NeedleSeq[n], offsets |-> SortedSeq(Search(text, NeedleSeq[n]))]],
      lookup |-> [o \in 1..Len(text) |-> Lookup(starts, o - 1)],
      retrieve |-> [r \in 1..Len(starts) |-> Retrieve(text, starts, r - 1)],
      offset_of |-> [r \in 1..Len(starts) |-> OffsetOf(starts, r - 1)]])>>)
Positions == IF Mode = "small" THEN 0..Len(bits) ELSE {BitsData[idx].at[n] : n \in 1..Len(BitsData[idx].at)}
EmitBits == kind = "bits" =>
  PrintT(<<"TEXT", ToJson([bits |-> bits,
      probes |-> LET ps == SortedSeq(Positions) IN
                 [n \in 1..Len(ps) |-> [x |-> ps[n],
                                        access |-> IF ps[n] < Len(bits) THEN Access(bits, ps[n]) ELSE -1,
                                        rank |-> IF ps[n] <= Len(bits) THEN Rank(bits, ps[n]) ELSE -1,
                                        select |-> IF HasSelect(bits, ps[n]) THEN Select(bits, ps[n]) ELSE -1]]])>>)
=============================================================================
