---------------------------- MODULE Trace_SpinLock ----------------------------
(* Trace validation of sync42::spin_lock::SpinLock against SpinLock.tla (extension, run by bin/extras).
   `vh spinlock-stress` runs 2-8 real threads over one SpinLock<u64>; events are merged by a global sequence number:
     enter t v   stamped after lock() returned on thread t; v is the protected counter as read under the lock
     exit t      stamped before the guard is dropped (after the counter was written back as v + 1, non-atomically,
                 with yields in between)
     end n       all threads joined; n is the counter's final value
     reset       next run
   The true holding interval contains [enter stamp, exit stamp], so two overlapping logged intervals are a real
   violation of mutual exclusion, never an artefact of stamping.  The fetch_add that takes the ticket cannot be
   observed without a hook, so each `enter` line is consumed by two steps of the specification, Take(t) (l unchanged)
   and then Enter(t): the ticket is drawn at the latest possible moment, which makes Enter(t) enabled exactly when
   nobody holds the lock (releases = acquires).  FIFO order of tickets is therefore decided on the model only. *)
EXTENDS SpinLock, Sequences, TLC, TLCExt, Json, IOUtils

Rec == ndJsonDeserialize(IOEnv.TRACE)

VARIABLES l
tvars == <<vars, l>>

Ev == Rec[l]
G(name, cond) == IF cond THEN TRUE ELSE Print(<<"GUARD-FAILED", name, "line", l>>, FALSE)
At(e) == l <= Len(Rec) /\ Rec[l].ev = e

TInit == Init /\ l = 1

Reset == /\ At("reset") /\ l' = l + 1
         /\ acquires' = 0 /\ releases' = 0 /\ order' = 0
         /\ pc' = [t \in Threads |-> "idle"] /\ idx' = [t \in Threads |-> 0] /\ ops' = [t \in Threads |-> 0]
EnterA == /\ At("enter") /\ pc[Ev.t] = "idle"
          /\ Take(Ev.t) /\ UNCHANGED l
EnterB == /\ At("enter") /\ pc[Ev.t] = "spin"
          /\ G("mutual exclusion: nobody else is between its enter and its exit", InCs = {})
          /\ G("no lost update: the counter read under the lock equals the number of completed critical sections", Ev.v = releases)
          /\ Enter(Ev.t) /\ l' = l + 1
ExitE == /\ At("exit")
         /\ G("exit follows the same thread's enter", pc[Ev.t] = "cs")
         /\ Release(Ev.t) /\ l' = l + 1
End == /\ At("end")
       /\ G("every critical section counted once", Ev.n = releases /\ InCs = {})
       /\ l' = l + 1 /\ UNCHANGED vars

TraceNext == Reset \/ EnterA \/ EnterB \/ ExitE \/ End
TraceSpec == TInit /\ [][TraceNext]_tvars
Enters == Cardinality({i \in 1..Len(Rec) : Rec[i].ev = "enter"})
TraceAccepted ==
  LET d == TLCGet("stats").diameter IN
  IF d - 1 = Len(Rec) + Enters THEN TRUE
  ELSE Print(<<"TRACE-REJECTED", "states", d - 1, "expected", Len(Rec) + Enters>>, FALSE)
=============================================================================
