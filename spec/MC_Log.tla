------------------------------- MODULE MC_Log -------------------------------
(* Exhaustive check of the log framing at toy scale, and evaluation at real scale for replay. *)
EXTENDS Log, Json, IOUtils

CONSTANTS MaxB, N, Emit

VARIABLES sizes
vars == <<sizes>>

RECURSIVE SeqsUpTo(_, _)
SeqsUpTo(S, n) == IF n = 0 THEN {<<>>} ELSE LET r == SeqsUpTo(S, n - 1) IN r \cup {Append(s, x) : s \in {t \in r : Len(t) = n - 1}, x \in S}

\* real scale: the cases come from a file: [{"sizes": [...], "cuts": [...]}]
Cases == IF Scale = "real" THEN ndJsonDeserialize(IOEnv.CASES) ELSE <<>>

Init == IF Scale = "real" THEN sizes \in {Cases[i].sizes : i \in 1..Len(Cases)}
        ELSE sizes \in SeqsUpTo(1..MaxB, N) \ {<<>>}
Next == UNCHANGED sizes
Spec == Init /\ [][Next]_vars

InvRoundTrip  == RoundTrip(sizes)
InvTornTail   == Scale = "toy" => TornTail(sizes)
InvOnlyTail   == Scale = "toy" => LosesOnlyTail(sizes)
InvWellFormed == WellFormed(sizes)

\* real scale: predict file lengths after each append and the outcome of reading each requested cut
CutsFor(sz) == LET c == CHOOSE i \in 1..Len(Cases) : Cases[i].sizes = sz IN Cases[c].cuts
EmitLine == Emit =>
  LET lay == Layout(sizes)
      cuts == IF Scale = "real" THEN CutsFor(sizes) ELSE [i \in 1..(lay.w + 1) |-> i - 1]
  IN PrintT(<<"LOG", ToJson([sizes |-> sizes, lengths |-> Lengths(sizes, 1, 0, <<>>),
                             frames |-> [i \in 1..Len(lay.frames) |-> <<lay.frames[i].kind, lay.frames[i].off, lay.frames[i].hdr, lay.frames[i].len>>],
                             reads |-> [i \in 1..Len(cuts) |-> LET r == Read(lay.frames, cuts[i]) IN <<cuts[i], Len(r.batches), r.end>>]])>>)
=============================================================================
