SPECIFICATION Spec
CONSTANTS
  K = 2
  T = 2
  N = 2
  Mode = "concat"
  MaxLen = 0
  Emit = FALSE
  Dev = {}
VIEW View
INVARIANT Conform
CHECK_DEADLOCK FALSE
