------------------------------- MODULE Collector -------------------------------
(***************************************************************************)
(* sync42::collector::Collector, the RCU-like quiescent-state detector     *)
(* (an extension beyond the listed properties; run by bin/extras).         *)
(*                                                                         *)
(* Every load, store and fetch_add of the implementation is one step       *)
(* (sequentially consistent: TLC cannot say anything about the weaker      *)
(* orderings the code asks for).  A thread is online/offline, calls        *)
(* quiescent() between critical intervals, and hands garbage to collect(). *)
(*                                                                         *)
(* Safety (GracePeriod): a clean-up runs only when no thread is inside a   *)
(* critical interval (= between the return of its last quiescent()/        *)
(* online()/register and its next call of quiescent()/offline()) that      *)
(* began before the garbage was handed to collect().                       *)
(*                                                                         *)
(* Deviation "PurgeAtOwn" (the final purge uses the thread's own stamp     *)
(* instead of the minimum over the online threads) is the negative         *)
(* control: it must break GracePeriod.  Three other deviations are kept    *)
(* because they were tried and do NOT break it within the bounds explored  *)
(* (2 threads; 3 or 4 operations each; up to 177 M states): "NoRecheck"    *)
(* (quiescent does not re-read last_online_timestamp), "OnlineBeforeStamp" *)
(* (mark_online sets in_use before the stamp), "PurgeOthersAtMin" (an      *)
(* offline node is purged at the partial minimum).  Under sequential       *)
(* consistency a thread that comes online during a scan starts its         *)
(* interval after the scanner's own stamp, so garbage older than that      *)
(* stamp cannot be reachable from it.                                      *)
(***************************************************************************)
EXTENDS Naturals, FiniteSets, TLC

CONSTANTS Threads,     \* e.g. 1..2
          MaxOps,      \* operations per thread
          MaxGarbage,
          Dev

VARIABLES counter, watermark, lastOnline,
          q, off, inuse,        \* per node: quiescent_timestamp, offline_timestamp, in_use
          heap,                 \* per node: set of [id, ts]
          pc, ts, mn, prev, lo, todo, cur, rq,   \* per thread: program counter and locals
          on,                   \* per thread: logically online (between online()/register and offline())
          ops, nextg,
          \* history
          ev, istart, cAt, cleaned, bad

vars == <<counter, watermark, lastOnline, q, off, inuse, heap, pc, ts, mn, prev, lo, todo, cur, rq, on, ops, nextg, ev, istart, cAt, cleaned, bad>>

Min(a, b) == IF a < b THEN a ELSE b
Max(a, b) == IF a > b THEN a ELSE b
MinOf(S) == CHOOSE x \in S : \A y \in S : x <= y

Init == /\ counter = 0 /\ watermark = 0 /\ lastOnline = 0
        /\ q = [t \in Threads |-> 0] /\ off = [t \in Threads |-> 0] /\ inuse = [t \in Threads |-> FALSE]
        /\ heap = [t \in Threads |-> {}]
        /\ pc = [t \in Threads |-> "idle"] /\ ts = [t \in Threads |-> 0] /\ mn = [t \in Threads |-> 0]
        /\ prev = [t \in Threads |-> 0] /\ lo = [t \in Threads |-> 0] /\ todo = [t \in Threads |-> {}]
        /\ cur = [t \in Threads |-> 0] /\ rq = [t \in Threads |-> 0]
        /\ on = [t \in Threads |-> FALSE] /\ ops = [t \in Threads |-> 0] /\ nextg = 1
        /\ ev = 0 /\ istart = [t \in Threads |-> 0] /\ cAt = <<>> /\ cleaned = {} /\ bad = FALSE

\* the clean-ups a purge of node n with bound b runs; the history check happens here
Purged(n, b) == {g \in heap[n] : g.ts < b}
Unsafe(gs) == \E g \in gs : \E t \in Threads : istart[t] # 0 /\ istart[t] < cAt[g.id]
DoPurge(n, b) == /\ heap' = [heap EXCEPT ![n] = @ \ Purged(n, b)]
                 /\ cleaned' = cleaned \cup {g.id : g \in Purged(n, b)}
                 /\ bad' = (bad \/ Unsafe(Purged(n, b)))

Go(t, l) == pc' = [pc EXCEPT ![t] = l]

(* -------------------------------- operations ----------------------------- *)
\* calls: the interval ends at the call of quiescent/offline, a collect is stamped at its call
CallQuiescent(t) == /\ pc[t] = "idle" /\ on[t] /\ ops[t] < MaxOps /\ ops' = [ops EXCEPT ![t] = @ + 1]
                    /\ istart' = [istart EXCEPT ![t] = 0] /\ Go(t, "q1")
                    /\ UNCHANGED <<counter, watermark, lastOnline, q, off, inuse, heap, ts, mn, prev, lo, todo, cur, rq, on, nextg, ev, cAt, cleaned, bad>>
CallOffline(t) == /\ pc[t] = "idle" /\ on[t] /\ ops[t] < MaxOps /\ ops' = [ops EXCEPT ![t] = @ + 1]
                  /\ istart' = [istart EXCEPT ![t] = 0] /\ on' = [on EXCEPT ![t] = FALSE] /\ Go(t, "o1")
                  /\ UNCHANGED <<counter, watermark, lastOnline, q, off, inuse, heap, ts, mn, prev, lo, todo, cur, rq, nextg, ev, cAt, cleaned, bad>>
CallOnline(t) == /\ pc[t] = "idle" /\ ~on[t] /\ ops[t] < MaxOps /\ ops' = [ops EXCEPT ![t] = @ + 1]
                 /\ Go(t, "n1")
                 /\ UNCHANGED <<counter, watermark, lastOnline, q, off, inuse, heap, ts, mn, prev, lo, todo, cur, rq, on, nextg, ev, istart, cAt, cleaned, bad>>
CallCollect(t) == /\ pc[t] = "idle" /\ on[t] /\ ops[t] < MaxOps /\ nextg <= MaxGarbage /\ ops' = [ops EXCEPT ![t] = @ + 1]
                  /\ ev' = ev + 1 /\ cAt' = cAt @@ (nextg :> ev + 1) /\ cur' = [cur EXCEPT ![t] = nextg] /\ nextg' = nextg + 1
                  /\ Go(t, "c1")
                  /\ UNCHANGED <<counter, watermark, lastOnline, q, off, inuse, heap, ts, mn, prev, lo, todo, rq, on, istart, cleaned, bad>>

\* collect: timestamp, then push
C1(t) == /\ pc[t] = "c1" /\ counter' = counter + 1 /\ ts' = [ts EXCEPT ![t] = counter + 1] /\ Go(t, "c2")
         /\ UNCHANGED <<watermark, lastOnline, q, off, inuse, heap, mn, prev, lo, todo, cur, rq, on, ops, nextg, ev, istart, cAt, cleaned, bad>>
C2(t) == /\ pc[t] = "c2" /\ heap' = [heap EXCEPT ![t] = @ \cup {[id |-> cur[t], ts |-> ts[t]]}] /\ Go(t, "idle")
         /\ UNCHANGED <<counter, watermark, lastOnline, q, off, inuse, ts, mn, prev, lo, todo, cur, rq, on, ops, nextg, ev, istart, cAt, cleaned, bad>>

\* offline: timestamp; offline_timestamp; quiescent_timestamp; barrier
O1(t) == /\ pc[t] = "o1" /\ counter' = counter + 1 /\ ts' = [ts EXCEPT ![t] = counter + 1] /\ Go(t, "o2")
         /\ UNCHANGED <<watermark, lastOnline, q, off, inuse, heap, mn, prev, lo, todo, cur, rq, on, ops, nextg, ev, istart, cAt, cleaned, bad>>
O2(t) == /\ pc[t] = "o2" /\ off' = [off EXCEPT ![t] = ts[t]] /\ Go(t, "o3")
         /\ UNCHANGED <<counter, watermark, lastOnline, q, inuse, heap, ts, mn, prev, lo, todo, cur, rq, on, ops, nextg, ev, istart, cAt, cleaned, bad>>
O3(t) == /\ pc[t] = "o3" /\ q' = [q EXCEPT ![t] = ts[t]] /\ Go(t, "o4")
         /\ UNCHANGED <<counter, watermark, lastOnline, off, inuse, heap, ts, mn, prev, lo, todo, cur, rq, on, ops, nextg, ev, istart, cAt, cleaned, bad>>
O4(t) == /\ pc[t] = "o4" /\ counter' = counter + 1 /\ Go(t, "idle")
         /\ UNCHANGED <<watermark, lastOnline, q, off, inuse, heap, ts, mn, prev, lo, todo, cur, rq, on, ops, nextg, ev, istart, cAt, cleaned, bad>>

\* online / register: timestamp; quiescent_timestamp; in_use; last_online; barrier; the interval starts at the return
N1(t) == /\ pc[t] = "n1" /\ counter' = counter + 1 /\ ts' = [ts EXCEPT ![t] = counter + 1] /\ Go(t, "n2")
         /\ UNCHANGED <<watermark, lastOnline, q, off, inuse, heap, mn, prev, lo, todo, cur, rq, on, ops, nextg, ev, istart, cAt, cleaned, bad>>
N2(t) == /\ pc[t] = "n2"
         /\ IF "OnlineBeforeStamp" \in Dev THEN inuse' = [inuse EXCEPT ![t] = TRUE] /\ q' = q
            ELSE q' = [q EXCEPT ![t] = ts[t]] /\ inuse' = inuse
         /\ Go(t, "n3")
         /\ UNCHANGED <<counter, watermark, lastOnline, off, heap, ts, mn, prev, lo, todo, cur, rq, on, ops, nextg, ev, istart, cAt, cleaned, bad>>
N3(t) == /\ pc[t] = "n3"
         /\ IF "OnlineBeforeStamp" \in Dev THEN q' = [q EXCEPT ![t] = ts[t]] /\ inuse' = inuse
            ELSE inuse' = [inuse EXCEPT ![t] = TRUE] /\ q' = q
         /\ Go(t, "n4")
         /\ UNCHANGED <<counter, watermark, lastOnline, off, heap, ts, mn, prev, lo, todo, cur, rq, on, ops, nextg, ev, istart, cAt, cleaned, bad>>
N4(t) == /\ pc[t] = "n4" /\ lastOnline' = Max(lastOnline, ts[t]) /\ Go(t, "n5")
         /\ UNCHANGED <<counter, watermark, q, off, inuse, heap, ts, mn, prev, lo, todo, cur, rq, on, ops, nextg, ev, istart, cAt, cleaned, bad>>
N5(t) == /\ pc[t] = "n5" /\ counter' = counter + 1 /\ Go(t, "idle")
         /\ on' = [on EXCEPT ![t] = TRUE] /\ ev' = ev + 1 /\ istart' = [istart EXCEPT ![t] = ev + 1]
         /\ UNCHANGED <<watermark, lastOnline, q, off, inuse, heap, ts, mn, prev, lo, todo, cur, rq, ops, nextg, cAt, cleaned, bad>>

\* quiescent
Q1(t) == /\ pc[t] = "q1" /\ counter' = counter + 1
         /\ ts' = [ts EXCEPT ![t] = counter + 1] /\ mn' = [mn EXCEPT ![t] = counter + 1] /\ Go(t, "q1b")
         /\ UNCHANGED <<watermark, lastOnline, q, off, inuse, heap, prev, lo, todo, cur, rq, on, ops, nextg, ev, istart, cAt, cleaned, bad>>
Q1b(t) == /\ pc[t] = "q1b" /\ prev' = [prev EXCEPT ![t] = watermark] /\ Go(t, "q2")
          /\ UNCHANGED <<counter, watermark, lastOnline, q, off, inuse, heap, ts, mn, lo, todo, cur, rq, on, ops, nextg, ev, istart, cAt, cleaned, bad>>
Q2(t) == /\ pc[t] = "q2" /\ lo' = [lo EXCEPT ![t] = lastOnline] /\ todo' = [todo EXCEPT ![t] = Threads \ {t}] /\ Go(t, "q3")
         /\ UNCHANGED <<counter, watermark, lastOnline, q, off, inuse, heap, ts, mn, prev, cur, rq, on, ops, nextg, ev, istart, cAt, cleaned, bad>>
\* per other node: in_use, then quiescent_timestamp, then offline_timestamp
Q3(t) == /\ pc[t] = "q3"
         /\ IF todo[t] = {} THEN Go(t, "q4") /\ UNCHANGED <<cur>>
            ELSE /\ cur' = [cur EXCEPT ![t] = MinOf(todo[t])]
                 /\ IF inuse[MinOf(todo[t])] THEN Go(t, "q3b") ELSE Go(t, "q3p")
         /\ UNCHANGED <<counter, watermark, lastOnline, q, off, inuse, heap, ts, mn, prev, lo, todo, rq, on, ops, nextg, ev, istart, cAt, cleaned, bad>>
Q3b(t) == /\ pc[t] = "q3b" /\ rq' = [rq EXCEPT ![t] = q[cur[t]]] /\ Go(t, "q3c")
          /\ UNCHANGED <<counter, watermark, lastOnline, q, off, inuse, heap, ts, mn, prev, lo, todo, cur, on, ops, nextg, ev, istart, cAt, cleaned, bad>>
Q3c(t) == /\ pc[t] = "q3c"
          /\ IF rq[t] > off[cur[t]]
             THEN /\ mn' = [mn EXCEPT ![t] = Min(rq[t], mn[t])] /\ todo' = [todo EXCEPT ![t] = @ \ {cur[t]}] /\ Go(t, "q3")
             ELSE /\ Go(t, "q3p") /\ UNCHANGED <<mn, todo>>
          /\ UNCHANGED <<counter, watermark, lastOnline, q, off, inuse, heap, ts, prev, lo, cur, rq, on, ops, nextg, ev, istart, cAt, cleaned, bad>>
Q3p(t) == /\ pc[t] = "q3p" /\ DoPurge(cur[t], IF "PurgeOthersAtMin" \in Dev THEN mn[t] ELSE prev[t]) /\ todo' = [todo EXCEPT ![t] = @ \ {cur[t]}] /\ Go(t, "q3")
          /\ UNCHANGED <<counter, watermark, lastOnline, q, off, inuse, ts, mn, prev, lo, cur, rq, on, ops, nextg, ev, istart, cAt>>
Q4(t) == /\ pc[t] = "q4" /\ counter' = counter + 1 /\ Go(t, "q5")
         /\ UNCHANGED <<watermark, lastOnline, q, off, inuse, heap, ts, mn, prev, lo, todo, cur, rq, on, ops, nextg, ev, istart, cAt, cleaned, bad>>
Q5(t) == /\ pc[t] = "q5"
         /\ IF lo[t] = lastOnline \/ "NoRecheck" \in Dev THEN Go(t, "q6") ELSE Go(t, "q1")
         /\ UNCHANGED <<counter, watermark, lastOnline, q, off, inuse, heap, ts, mn, prev, lo, todo, cur, rq, on, ops, nextg, ev, istart, cAt, cleaned, bad>>
Q6(t) == /\ pc[t] = "q6" /\ watermark' = Max(watermark, mn[t]) /\ Go(t, "q7")
         /\ UNCHANGED <<counter, lastOnline, q, off, inuse, heap, ts, mn, prev, lo, todo, cur, rq, on, ops, nextg, ev, istart, cAt, cleaned, bad>>
\* the thread's own node: only it writes these, so reading them is one step
Q7(t) == /\ pc[t] = "q7"
         /\ IF inuse[t] /\ q[t] > off[t] THEN q' = [q EXCEPT ![t] = ts[t]] /\ Go(t, "q8") /\ off' = off
            ELSE off' = [off EXCEPT ![t] = ts[t]] /\ Go(t, "q7b") /\ q' = q
         /\ UNCHANGED <<counter, watermark, lastOnline, inuse, heap, ts, mn, prev, lo, todo, cur, rq, on, ops, nextg, ev, istart, cAt, cleaned, bad>>
Q7b(t) == /\ pc[t] = "q7b" /\ q' = [q EXCEPT ![t] = ts[t]] /\ Go(t, "q8")
          /\ UNCHANGED <<counter, watermark, lastOnline, off, inuse, heap, ts, mn, prev, lo, todo, cur, rq, on, ops, nextg, ev, istart, cAt, cleaned, bad>>
Q8(t) == /\ pc[t] = "q8" /\ DoPurge(t, IF "PurgeAtOwn" \in Dev THEN ts[t] ELSE mn[t]) /\ Go(t, "idle")
         /\ ev' = ev + 1 /\ istart' = [istart EXCEPT ![t] = ev + 1]
         /\ UNCHANGED <<counter, watermark, lastOnline, q, off, inuse, ts, mn, prev, lo, todo, cur, rq, on, ops, nextg, cAt>>

Step(t) == \/ CallQuiescent(t) \/ CallOffline(t) \/ CallOnline(t) \/ CallCollect(t)
           \/ C1(t) \/ C2(t) \/ O1(t) \/ O2(t) \/ O3(t) \/ O4(t) \/ N1(t) \/ N2(t) \/ N3(t) \/ N4(t) \/ N5(t)
           \/ Q1(t) \/ Q1b(t) \/ Q2(t) \/ Q3(t) \/ Q3b(t) \/ Q3c(t) \/ Q3p(t) \/ Q4(t) \/ Q5(t) \/ Q6(t) \/ Q7(t) \/ Q7b(t) \/ Q8(t)
Next == \E t \in Threads : Step(t)
Spec == Init /\ [][Next]_vars

(* -------------------------------- properties ----------------------------- *)
GracePeriod == ~bad
\* every node's timestamps never exceed the counter; the watermark never exceeds a live online thread's stamp at rest
Stamps == \A t \in Threads : q[t] <= counter /\ off[t] <= counter /\ watermark <= counter
\* once everybody is idle and has called quiescent after the last collect, garbage is gone (checked as a state predicate
\* in the witness configuration only)
View == <<counter, watermark, lastOnline, q, off, inuse, heap, pc, ts, mn, prev, lo, todo, cur, rq, on, ops, nextg, istart, cAt, bad>>
=============================================================================
