--------------------------------- MODULE Conc ---------------------------------
(***************************************************************************)
(* Concurrent clients of lsmtk::KeyValueStore at the granularity of its    *)
(* critical sections (kvs/mod.rs): a writer takes a sequence number and    *)
(* links into the wait list under the `state` mutex, appends to the log,   *)
(* inserts its batch into the memtable it captured ONE ENTRY AT A TIME,    *)
(* then waits to be head of the wait list and leaves; the flush thread     *)
(* swaps memtables under the mutex, takes a number, queues behind every    *)
(* earlier writer, then moves the immutable memtable into the tree; a      *)
(* reader / scanner captures (memtable, immutable memtable, tree, time-    *)
(* stamp) under the mutex and then reads key by key while inserts go on.   *)
(*                                                                         *)
(* Dev "TreePinnedBeforeState" (a seeded change, negative control): the    *)
(* tree version is pinned before, not inside, the critical section that    *)
(* captures the memtables - a whole flush can pass in between.             *)
(* Dev "SnapshotAtAssignedSeq" (as found): the snapshot timestamp is the   *)
(* last ASSIGNED sequence number.  Repaired: the last COMPLETED one.       *)
(***************************************************************************)
EXTENDS Naturals, Integers, Sequences, FiniteSets, TLC

CONSTANTS Shape,       \* which writers exist (cfg files cannot hold tuples)
          NW,          \* batches per writer
          Keys, MaxRoll, Dev

VARIABLES seq, visible,
          memId,       \* id of the current memtable
          immId,       \* id of the immutable memtable or 0
          memC,        \* memtable id -> set of entries [k, ts, v]
          tree,        \* set of entries flushed into the tree
          wl,          \* wait list: sequence of tickets (writer ids; 0 for the flush thread)
          wpc, wts, wmem, wleft, wcount,   \* writers: pc, timestamp, captured memtable, keys still to insert, batches done
          fpc, fts, rolls,
          spc, sts, smem, simm, stree, sleft, sseen,   \* one scanner: snapshot and progress
          startedAt, doneAt,     \* per key: highest counter begun / completed (the abstract register map)
          sdone,                 \* doneAt when the scan took its snapshot
          batches                \* every batch begun so far: [ts, keys]
vars == <<batches, seq, visible, memId, immId, memC, tree, wl, wpc, wts, wmem, wleft, wcount, fpc, fts, rolls,
          spc, sts, smem, simm, stree, sleft, sseen, startedAt, doneAt, sdone>>

\* writer id -> set of keys of its batch (each writer issues NW batches)
Writers == CASE Shape = 1 -> <<{1, 2}, {3}>>          \* a two-key batch writer and a single-key writer
             [] Shape = 2 -> <<{1, 2}, {2, 3}>>       \* two batch writers sharing key 2
             [] Shape = 3 -> <<{1, 2, 3}>>            \* one three-key batch writer
W == DOMAIN Writers
Init == /\ seq = 0 /\ visible = 0 /\ memId = 1 /\ immId = 0 /\ memC = [i \in 1..(MaxRoll + 1) |-> {}] /\ tree = {}
        /\ wl = <<>> /\ wpc = [w \in W |-> "idle"] /\ wts = [w \in W |-> 0] /\ wmem = [w \in W |-> 0]
        /\ wleft = [w \in W |-> {}] /\ wcount = [w \in W |-> 0]
        /\ fpc = "idle" /\ fts = 0 /\ rolls = 0
        /\ spc = "idle" /\ sts = 0 /\ smem = 0 /\ simm = 0 /\ stree = {} /\ sleft = {} /\ sseen = <<>>
        /\ startedAt = [k \in Keys |-> 0] /\ doneAt = [k \in Keys |-> 0] /\ sdone = [k \in Keys |-> 0] /\ batches = {}

(* --------------------------------- writers -------------------------------- *)
WBegin(w) == /\ wpc[w] = "idle" /\ wcount[w] < NW
             /\ seq' = seq + 1 /\ wts' = [wts EXCEPT ![w] = seq + 1]
             /\ wl' = Append(wl, w) /\ wmem' = [wmem EXCEPT ![w] = memId]
             /\ wleft' = [wleft EXCEPT ![w] = Writers[w]]
             /\ startedAt' = [k \in Keys |-> IF k \in Writers[w] THEN seq + 1 ELSE startedAt[k]]
             /\ batches' = batches \cup {[ts |-> seq + 1, keys |-> Writers[w]]}
             /\ wpc' = [wpc EXCEPT ![w] = "insert"]       \* (the log append has no shared effect here)
             /\ UNCHANGED <<visible, memId, immId, memC, tree, wcount, fpc, fts, rolls, spc, sts, smem, simm, stree, sleft, sseen, doneAt, sdone>>
WInsert(w) == /\ wpc[w] = "insert" /\ wleft[w] # {}
              /\ \E k \in wleft[w] :
                   /\ memC' = [memC EXCEPT ![wmem[w]] = @ \cup {[k |-> k, ts |-> wts[w], v |-> wts[w]]}]
                   /\ wleft' = [wleft EXCEPT ![w] = @ \ {k}]
              /\ UNCHANGED <<batches, seq, visible, memId, immId, tree, wl, wpc, wts, wmem, wcount, fpc, fts, rolls, spc, sts, smem, simm, stree, sleft, sseen, startedAt, doneAt, sdone>>
WFinish(w) == /\ wpc[w] = "insert" /\ wleft[w] = {} /\ wl # <<>> /\ wl[1] = w
              /\ wl' = Tail(wl)
              /\ visible' = IF visible > wts[w] THEN visible ELSE wts[w]
              /\ doneAt' = [k \in Keys |-> IF k \in Writers[w] THEN wts[w] ELSE doneAt[k]]
              /\ wcount' = [wcount EXCEPT ![w] = @ + 1] /\ wpc' = [wpc EXCEPT ![w] = "idle"]
              /\ UNCHANGED <<batches, seq, memId, immId, memC, tree, wts, wmem, wleft, fpc, fts, rolls, spc, sts, smem, simm, stree, sleft, sseen, startedAt, sdone>>

(* ------------------------------- flush thread ----------------------------- *)
FRoll == /\ fpc = "idle" /\ rolls < MaxRoll /\ immId = 0
         /\ immId' = memId /\ memId' = memId + 1
         /\ seq' = seq + 1 /\ fts' = seq + 1 /\ wl' = Append(wl, 0)
         /\ fpc' = "queued" /\ rolls' = rolls + 1
         /\ UNCHANGED <<batches, visible, memC, tree, wpc, wts, wmem, wleft, wcount, spc, sts, smem, simm, stree, sleft, sseen, startedAt, doneAt, sdone>>
FHead == /\ fpc = "queued" /\ wl # <<>> /\ wl[1] = 0
         /\ wl' = Tail(wl) /\ visible' = IF visible > fts THEN visible ELSE fts
         /\ fpc' = "ingest"
         /\ UNCHANGED <<batches, seq, memId, immId, memC, tree, wpc, wts, wmem, wleft, wcount, fts, rolls, spc, sts, smem, simm, stree, sleft, sseen, startedAt, doneAt, sdone>>
FIngest == /\ fpc = "ingest" /\ tree' = tree \cup memC[immId] /\ fpc' = "clear"
           /\ UNCHANGED <<batches, seq, visible, memId, immId, memC, wl, wpc, wts, wmem, wleft, wcount, fts, rolls, spc, sts, smem, simm, stree, sleft, sseen, startedAt, doneAt, sdone>>
FClear == /\ fpc = "clear" /\ immId' = 0 /\ fpc' = "idle"
          /\ UNCHANGED <<batches, seq, visible, memId, memC, tree, wl, wpc, wts, wmem, wleft, wcount, fts, rolls, spc, sts, smem, simm, stree, sleft, sseen, startedAt, doneAt, sdone>>

(* --------------------------------- scanner -------------------------------- *)
SSnap == /\ spc = (IF "TreePinnedBeforeState" \in Dev THEN "pinned" ELSE "idle")
         /\ sts' = IF "SnapshotAtAssignedSeq" \in Dev THEN seq ELSE visible
         /\ smem' = memId /\ simm' = immId /\ stree' = (IF "TreePinnedBeforeState" \in Dev THEN stree ELSE tree) /\ sleft' = Keys /\ sseen' = <<>> /\ sdone' = doneAt
         /\ spc' = "scan"
         /\ UNCHANGED <<batches, seq, visible, memId, immId, memC, tree, wl, wpc, wts, wmem, wleft, wcount, fpc, fts, rolls, startedAt, doneAt>>
SPin == /\ "TreePinnedBeforeState" \in Dev /\ spc = "idle" /\ spc' = "pinned" /\ stree' = tree
        /\ UNCHANGED <<batches, seq, visible, memId, immId, memC, tree, wl, wpc, wts, wmem, wleft, wcount, fpc, fts, rolls, sts, smem, simm, sleft, sseen, startedAt, doneAt, sdone>>
NewestIn(S, k, t) == LET c == {e \in S : e.k = k /\ e.ts <= t} IN
                     IF c = {} THEN 0 ELSE (CHOOSE e \in c : \A f \in c : f.ts <= e.ts).v
\* the merge of memtable, immutable memtable and the tree snapshot, pruned at the snapshot timestamp
SRead(k) == LET S == memC[smem] \cup (IF simm = 0 THEN {} ELSE memC[simm]) \cup stree IN NewestIn(S, k, sts)
SStep == /\ spc = "scan" /\ sleft # {}
         /\ LET k == CHOOSE k \in sleft : \A j \in sleft : k <= j IN     \* ascending key order
            /\ sseen' = Append(sseen, <<k, SRead(k)>>) /\ sleft' = sleft \ {k}
         /\ UNCHANGED <<batches, seq, visible, memId, immId, memC, tree, wl, wpc, wts, wmem, wleft, wcount, fpc, fts, rolls, spc, sts, smem, simm, stree, startedAt, doneAt, sdone>>
SDone == /\ spc = "scan" /\ sleft = {} /\ spc' = "idle"
         /\ UNCHANGED <<batches, seq, visible, memId, immId, memC, tree, wl, wpc, wts, wmem, wleft, wcount, fpc, fts, rolls, sts, smem, simm, stree, sleft, sseen, startedAt, doneAt, sdone>>

Next == (\E w \in W : WBegin(w) \/ WInsert(w) \/ WFinish(w)) \/ FRoll \/ FHead \/ FIngest \/ FClear \/ SSnap \/ SPin \/ SStep \/ SDone
Spec == Init /\ [][Next]_vars

(* -------------------------------- properties ------------------------------ *)
Seen(k) == LET hits == {i \in 1..Len(sseen) : sseen[i][1] = k} IN IF hits = {} THEN -1 ELSE sseen[CHOOSE i \in hits : TRUE][2]
\* C06 linearizability for the register map: a value read is not older than a write completed before the
\* snapshot and was written (begun) by now
Linearizable == \A k \in Keys : Seen(k) # -1 => Seen(k) >= sdone[k] /\ Seen(k) <= startedAt[k]
\* C06 batch atomicity: one snapshot never shows part of a batch
BatchAtomic == \A b \in batches : \A x, y \in b.keys :
                 (Seen(x) # -1 /\ Seen(y) # -1) => ~(Seen(x) >= b.ts /\ Seen(y) < b.ts)
\* a completed write is visible to every later snapshot (no lost insert across roll-over)
CompletedVisible == spc = "scan" => \A k \in Keys : sdone[k] <= NewestIn(memC[smem] \cup (IF simm = 0 THEN {} ELSE memC[simm]) \cup stree, k, sts) \/ sdone[k] = 0
\* nothing is lost by the flush: every completed write's entry is in some memtable or the tree
NoLostWrite == \A k \in Keys : doneAt[k] = 0 \/ \E e \in tree \cup UNION {memC[i] : i \in DOMAIN memC} : e.k = k /\ e.ts = doneAt[k]
=============================================================================
