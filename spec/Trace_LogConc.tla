--------------------------- MODULE Trace_LogConc ---------------------------
(* C12, concurrent half: threads appending through ConcurrentLogBuilder (write- and fsync-coalescing queues). *)
(* The trace is the syscall shim's log: `write` and `fdatasync` on the log file (logged when the call has      *)
(* returned and before the caller can publish its result), interleaved with the application's marks `ab`       *)
(* (append called) and `ae` (append returned); first comes `layout` (for every batch the offset at which the    *)
(* frame holding its last entry ends, read back from the finished file) and last `final` (the file read back). *)
(*   written - bytes handed to the file so far; synced - `written` at the last completed fdatasync.             *)
(*   An append that returned ok must find its batch below `synced`; the file holds each batch once, whole       *)
(*   (its entries contiguous), and two appends ordered in real time are ordered in the file.                    *)
EXTENDS Naturals, Sequences, FiniteSets, TLC, TLCExt, Json, IOUtils
Rec == ndJsonDeserialize(IOEnv.TRACE)
VARIABLES l, written, synced, begun, returned, entries, ends, before
vars == <<l, written, synced, begun, returned, entries, ends, before>>
Ev == Rec[l]
G(name, cond) == IF cond THEN TRUE ELSE Print(<<"GUARD-FAILED", name, "line", l>>, FALSE)
Is(e) == l <= Len(Rec) /\ Rec[l].ev = e /\ l' = l + 1
Init == l = 1 /\ written = 0 /\ synced = 0 /\ begun = {} /\ returned = {} /\ entries = <<>> /\ ends = <<>> /\ before = {}
Layout == Is("layout") /\ ends' = Ev.batch_end /\ UNCHANGED <<written, synced, begun, returned, entries, before>>
Write == Is("write") /\ written' = written + Ev.len /\ UNCHANGED <<synced, begun, returned, entries, ends, before>>
Sync == Is("sync") /\ synced' = written /\ UNCHANGED <<written, begun, returned, entries, ends, before>>
AB == /\ Is("ab") /\ begun' = begun \cup {Ev.id}
      \* every append that has already returned precedes this one in real time
      /\ before' = before \cup {<<r, Ev.id>> : r \in returned}
      /\ entries' = [x \in DOMAIN entries \cup {Ev.id} |-> IF x = Ev.id THEN Ev.entries ELSE entries[x]]
      /\ UNCHANGED <<written, synced, returned, ends>>
Key(id) == ToString(id)
AE == /\ Is("ae")
      /\ G("no fault-free append fails", Ev.ok)
      /\ G("an append returns only after its batch is durable (C12)", Key(Ev.id) \in DOMAIN ends /\ ends[Key(Ev.id)] <= synced)
      /\ returned' = returned \cup {Ev.id}
      /\ UNCHANGED <<written, synced, begun, entries, ends, before>>
\* a bare fsync() returned: everything written before it was called is durable - at the least nothing goes backwards
FS == /\ Is("fs") /\ G("fsync() succeeds", Ev.ok) /\ UNCHANGED <<written, synced, begun, returned, entries, ends, before>>
Ids(runs) == {runs[i][1] : i \in 1..Len(runs)}
Pos(runs, id) == CHOOSE i \in 1..Len(runs) : runs[i][1] = id
Final == /\ Is("final")
         /\ G("the log reads back to its end without an error", Ev["end"] = "end" /\ Ev.threads_died = 0)
         /\ G("every batch is in the file exactly once, whole (C12)",
              /\ Ids(Ev.runs) = begun /\ Len(Ev.runs) = Cardinality(begun) /\ Cardinality(begun) = Ev.total
              /\ \A i \in 1..Len(Ev.runs) : Ev.runs[i][2] = entries[Ev.runs[i][1]])
         /\ G("appends ordered in real time are ordered in the file", \A p \in before : Pos(Ev.runs, p[1]) < Pos(Ev.runs, p[2]))
         /\ G("everything written was accounted for", written = Ev.size)
         /\ UNCHANGED <<written, synced, begun, returned, entries, ends, before>>
TraceNext == Layout \/ Write \/ Sync \/ AB \/ AE \/ FS \/ Final
TraceSpec == Init /\ [][TraceNext]_vars
TraceAccepted ==
  LET d == TLCGet("stats").diameter IN
  IF d - 1 = Len(Rec) THEN TRUE
  ELSE Print(<<"TRACE-REJECTED", "matched", d - 1, "of", Len(Rec), "next", ToJson(Rec[d])>>, FALSE)
=============================================================================
