-------------------------------- MODULE Tree --------------------------------
(***************************************************************************)
(* The LSM tree of lsmtk as a state function library (no variables):       *)
(*   files  : [file id -> set of entries]                                  *)
(*   levels : sequence (level 0 first) of sequences of file ids            *)
(*   mem    : set of entries of the memtable (unflushed writes)            *)
(* Operators transcribe lsmtk/src/tree/mod.rs (Version::load,              *)
(* Version::range_scan, Level::lower_bound/upper_bound, apply_compaction,  *)
(* compute_bounds, find_trivial_move, find_best_compaction, expand) and    *)
(* tree/recover.rs; the *properties* are stated against the history `all`. *)
(***************************************************************************)
EXTENDS Cursor, FiniteSetsExt, TLCExt

MinOf(S) == CHOOSE x \in S : \A y \in S : x <= y
MaxOf(S) == CHOOSE x \in S : \A y \in S : x >= y

FirstKey(S) == MinOf({e.k : e \in S})
LastKey(S)  == MaxOf({e.k : e \in S})
MinTs(S)    == MinOf({e.ts : e \in S})
MaxTs(S)    == MaxOf({e.ts : e \in S})

Ids(levels) == UNION {SeqToSet(levels[i]) : i \in 1..Len(levels)}
TreeEntries(levels, files) == UNION {files[id] : id \in Ids(levels)}

\* newest version of k with ts <= t in the set S, or NoEntry
Newest(S, k, t) == LET c == NewestLE(S, k, t) IN IF c = {} THEN NoEntry ELSE CHOOSE e \in c : TRUE
Visible(e) == IF e.k = 0 \/ e.v = 0 THEN 0 ELSE e.v

(* ----------------------- Level::lower_bound / upper_bound -------------- *)
\* partition_point(pred): number of leading elements satisfying pred
RECURSIVE PPoint(_, _, _)
PPoint(lv, P(_), i) == IF i > Len(lv) THEN Len(lv) ELSE IF P(lv[i]) THEN PPoint(lv, P, i + 1) ELSE i - 1
LowerBound(lv, files, k) == PPoint(lv, LAMBDA id : k > LastKey(files[id]), 1)
UpperBound(lv, files, k) == PPoint(lv, LAMBDA id : k >= FirstKey(files[id]), 1)

(* ------------------------------ Version::load -------------------------- *)
\* level 0 is searched by biggest_timestamp descending: sort_by_key (stable) then reversed
L0Order(lv, files) ==
  LET Before(i, j) == MaxTs(files[lv[i]]) < MaxTs(files[lv[j]]) \/ (MaxTs(files[lv[i]]) = MaxTs(files[lv[j]]) /\ i < j)
      asc == SortSeq([i \in 1..Len(lv) |-> i], Before)
  IN [i \in 1..Len(lv) |-> lv[asc[Len(lv) + 1 - i]]]

RECURSIVE FirstHit(_, _, _, _, _)
FirstHit(cand, files, k, ts, i) ==
  IF i > Len(cand) THEN NoEntry
  ELSE LET e == Newest(files[cand[i]], k, ts) IN IF e.k # 0 THEN e ELSE FirstHit(cand, files, k, ts, i + 1)

RECURSIVE TreeLoad(_, _, _, _, _)
TreeLoad(levels, files, k, ts, l) ==
  IF l > Len(levels) THEN NoEntry
  ELSE LET lv == levels[l]
           cand == IF l = 1 THEN L0Order(lv, files)
                   ELSE LET lb == LowerBound(lv, files, k)  ub == UpperBound(lv, files, k)
                        IN IF lb < ub THEN SubSeq(lv, lb + 1, ub) ELSE <<>>
           h == FirstHit(cand, files, k, ts, 1)
       IN IF h.k # 0 THEN h ELSE TreeLoad(levels, files, k, ts, l + 1)

\* KeyValueStore::load: memtable, then tree (the immutable memtable exists only inside a flush)
MechLoad(mem, levels, files, k, ts) ==
  LET m == Newest(mem, k, ts) IN IF m.k # 0 THEN m ELSE TreeLoad(levels, files, k, ts, 1)

(* --------------------------- Version::range_scan ------------------------ *)
\* The composition of cursors as coded.  "ScanPrunesPerComponent" (as found): every SST and the
\* memtable are pruned on their own before the merge, so a tombstone cannot shadow an older value
\* held by another component.  Repaired: components are merged raw and pruned once on top.
Comp(S, ts, lazy) ==
  LET leaf == IF lazy THEN [op |-> "lazy", s |-> SortEntries(S)] ELSE [op |-> "vec", s |-> SortEntries(S)]
  IN IF "ScanPrunesPerComponent" \in Dev THEN [op |-> "prune", ts |-> ts, c |-> leaf] ELSE leaf

BoundLE(a, b) ==   \* compare_bounds_le of Version::range_scan
  CASE a.kind = "U" \/ b.kind = "U" -> TRUE
    [] a.kind = "I" /\ b.kind = "I" -> a.k <= b.k
    [] OTHER -> a.k < b.k

LevelExpr(lv, files, lo, hi, ts) ==
  LET keep == SelectSeq(lv, LAMBDA id : BoundLE(lo, [kind |-> "I", k |-> LastKey(files[id])])
                                       /\ BoundLE([kind |-> "I", k |-> FirstKey(files[id])], hi))
  IN IF keep = <<>> THEN <<>>
     ELSE <<[op |-> "concat", kids |-> [i \in 1..Len(keep) |-> Comp(files[keep[i]], ts, TRUE)]]>>

RECURSIVE LevelExprs(_, _, _, _, _, _)
LevelExprs(levels, files, lo, hi, ts, l) ==
  IF l > Len(levels) THEN <<>>
  ELSE LevelExpr(levels[l], files, lo, hi, ts) \o LevelExprs(levels, files, lo, hi, ts, l + 1)

VersionScanExpr(levels, files, lo, hi, ts) ==
  [op |-> "merge", kids |-> [i \in 1..Len(levels[1]) |-> Comp(files[levels[1][i]], ts, TRUE)]
                            \o LevelExprs(levels, files, lo, hi, ts, 2)]

\* KeyValueStore::range_scan
ScanExpr(mem, levels, files, lo, hi, ts) ==
  LET memc == IF "ScanPrunesPerComponent" \in Dev
              THEN [op |-> "bounds", lo |-> lo, hi |-> hi, c |-> [op |-> "prune", ts |-> ts, c |-> [op |-> "vec", s |-> SortEntries(mem)]]]
              ELSE [op |-> "bounds", lo |-> lo, hi |-> hi, c |-> [op |-> "vec", s |-> SortEntries(mem)]]
  IN [op |-> "bounds", lo |-> lo, hi |-> hi, c |->
       [op |-> "prune", ts |-> ts, c |->
         [op |-> "merge", kids |-> <<memc, VersionScanExpr(levels, files, lo, hi, ts)>>]]]

\* LsmTree::range_scan (no memtable)
TreeScanExpr(levels, files, lo, hi, ts) ==
  [op |-> "bounds", lo |-> lo, hi |-> hi, c |-> [op |-> "prune", ts |-> ts, c |-> VersionScanExpr(levels, files, lo, hi, ts)]]

\* what a scan must show: the live keys of the whole history within the bounds
IdealScan(all, lo, hi, ts) == DBounds(DPrune(SortEntries(all), ts), lo, hi)

\* run a program (sequence of calls) on an operational cursor / on the ideal, yielding observations
RECURSIVE RunOps(_, _, _), RunIdeal(_, _, _, _)
RunOps(c, calls, i) == IF i > Len(calls) THEN <<>> ELSE LET c1 == Apply(c, calls[i]) IN <<Key(c1)>> \o RunOps(c1, calls, i + 1)
RunIdeal(s, p, calls, i) == IF i > Len(calls) THEN <<>> ELSE LET p1 == AApply(s, p, calls[i]) IN <<APosKey(s, p1)>> \o RunIdeal(s, p1, calls, i + 1)

RECURSIVE FinalPos(_, _, _, _)
FinalPos(s, p, calls, i) == IF i > Len(calls) THEN p ELSE FinalPos(s, AApply(s, p, calls[i]), calls, i + 1)

\* forward / backward enumeration through the operational cursor
RECURSIVE WalkFwd(_, _), WalkBwd(_, _)
WalkFwd(c, n) == LET c1 == Next(c) IN IF n = 0 \/ Key(c1).k = 0 THEN <<>> ELSE <<Key(c1)>> \o WalkFwd(c1, n - 1)
WalkBwd(c, n) == LET c1 == Prev(c) IN IF n = 0 \/ Key(c1).k = 0 THEN <<>> ELSE <<Key(c1)>> \o WalkBwd(c1, n - 1)

(* -------------------------------- recovery ------------------------------ *)
\* tree/recover.rs: edge newer -> older between key-overlapping files; files with interleaved
\* timestamp ranges are mutually connected; SCC = mutual reachability; level = longest path from a
\* root of the SCC DAG; clamp to NL levels; L0 by smallest timestamp, others by (first key, min ts).
\* Written with tabulated functions (metadata, successor sets, closure by repeated squaring,
\* levels by relaxation to a fixed point) so that TLC evaluates it in polynomial time.
RECURSIVE RelaxLevels(_, _, _, _, _)
RelaxLevels(L, ids, Scc, Pred, fuel) ==
  LET L2 == TLCEval([a \in ids |-> MaxOf({0} \cup {L[b] + 1 : b \in Pred[a]})])
  IN IF fuel = 0 \/ L2 = L THEN L ELSE RelaxLevels(L2, ids, Scc, Pred, fuel - 1)

RecoverLevels(ids, fs, NL) ==
  LET M == TLCEval([a \in ids |-> [fk |-> FirstKey(fs[a]), lk |-> LastKey(fs[a]), mn |-> MinTs(fs[a]), mx |-> MaxTs(fs[a])]])
      Succ == TLCEval([a \in ids |-> {b \in ids : b # a /\ M[a].fk <= M[b].lk /\ M[b].fk <= M[a].lk /\ ~(M[a].mx < M[b].mn)}])
      Sq(R) == TLCEval([a \in ids |-> R[a] \cup UNION {R[b] : b \in R[a]}])
      R1 == Sq(Succ)  R2 == Sq(R1)  R3 == Sq(R2)  R4 == Sq(R3)  R5 == Sq(R4)
      Reach == Sq(R5)                                              \* paths of length <= 64
      Scc == TLCEval([a \in ids |-> {a} \cup {b \in Reach[a] : a \in Reach[b]}])
      \* predecessors of a's component from outside the component
      Pred == TLCEval([a \in ids |-> {b \in ids \ Scc[a] : \E c \in Scc[a] : c \in Succ[b]}])
      lvl == TLCEval(RelaxLevels([a \in ids |-> 0], ids, Scc, Pred, Cardinality(ids) + 1))
      mx == IF ids = {} THEN 0 ELSE MaxOf({lvl[a] : a \in ids})
      delta == IF mx >= NL THEN mx - NL + 1 ELSE 0
      adj(a) == IF lvl[a] < delta THEN 0 ELSE lvl[a] - delta
  IN [l \in 1..NL |-> SetToSeq({a \in ids : adj(a) = l - 1})]     \* order inside a level: see RecoverOrdered

\* files of one level (>= 1) cover disjoint key ranges: what Level::lower_bound/upper_bound rely on
LevelsDisjoint(levels, files) ==
  \A l \in 2..Len(levels) : \A i, j \in 1..Len(levels[l]) :
     i < j => LastKey(files[levels[l][i]]) < FirstKey(files[levels[l][j]])

(* ------------------------------- properties ----------------------------- *)
Unb == [kind |-> "U", k |-> 0]

ReadLatestAt(mem, levels, files, all, keys) ==
  \A k \in keys : Visible(MechLoad(mem, levels, files, k, MAXTS)) = Visible(Newest(all, k, MAXTS))

ScanMatchesIdeal(mem, levels, files, all) ==
  LET c == Build(ScanExpr(mem, levels, files, Unb, Unb, MAXTS))
      ideal == IdealScan(all, Unb, Unb, MAXTS)
  IN /\ WalkFwd(SeekFirst(c), 100) = ideal
     /\ WalkBwd(SeekLast(c), 100) = Reverse(ideal)

\* everything ever written is in the tree or the memtable, except what GC discarded; nothing else is
NoLoss(mem, levels, files, all, gcd) == TreeEntries(levels, files) \cup mem = all \ gcd

\* no two files of the tree hold the same entry (a duplicate would break setsum accounting)
NoDuplicates(levels, files) ==
  \A a, b \in Ids(levels) : a # b => files[a] \cap files[b] = {}

(* --------------------- what a garbage collection may drop --------------- *)
\* Independent reading of the default policy family "versions = N" (sst/src/gc.rs doc comment):
\* versions of a key are counted newest first; a value counts one, a run of tombstones followed by
\* a value counts two (the oldest tombstone of the run and the value are kept together); once N
\* are retained the rest may go; tombstones with no older value below them may go.
\* For the safety side only this matters: a discarded entry must not decide the current value of
\* its key, and a discarded tombstone must not uncover an older value that stays in the tree.
DiscardSafe(disc, all, gcd) ==
  \A e \in disc :
    LET live == all \ (gcd \cup disc)
        newestLive == Newest(live, e.k, MAXTS)
        newestAll  == Newest(all, e.k, MAXTS)
    IN Visible(newestLive) = Visible(newestAll)
=============================================================================
