------------------------------- MODULE SkipList -------------------------------
(***************************************************************************)
(* skipfree::SkipList (lock-free insert, wait-free readers) at the         *)
(* granularity of single pointer loads, stores and compare-and-swaps, and  *)
(* listfree::List (CAS prepend) as the degenerate case.                    *)
(*                                                                         *)
(* Nodes are naturals: 0 is the head, key k is node k (keys are distinct). *)
(* nxt[n][l] is node n's successor at level l (NIL = -1); a node has       *)
(* `height[n]` levels.  insert(k): find_greater_or_equal_and_pointers      *)
(* walks from the head, one load per step, recording prev[l]/obs[l]; then  *)
(* for each level, bottom up: set_next(x, l, obs[l]); CAS(prev[l].nxt[l],  *)
(* obs[l], x); on failure re-walk from prev[l] at that level.              *)
(* Readers: contains(k) / full iteration, one load per step.               *)
(* Sequential consistency is assumed (the Release/Acquire orderings are    *)
(* not modelled).                                                          *)
(***************************************************************************)
EXTENDS Naturals, Integers, Sequences, FiniteSets, TLC

CONSTANTS KeySet,      \* one inserter per key (keys are distinct)
          MAXH,        \* MAX_HEIGHT
          Dev          \* "CasBeforeSetNext": publish before the new node's successor is set
                       \* "DropFreesUnderIterators": dropping the SkipList frees the nodes although iterators are held

NIL == -1
Inserters == [k \in KeySet |-> k]
I == KeySet
KeysAll == KeySet
Nodes == {0} \cup KeysAll
Levels == 1..MAXH

VARIABLES nxt, height, linked0,
          ipc, ih, ilevel, ix, iprev, iobs,       \* inserters
          rpc, rx, rlevel, rseen, rstartDone,     \* one reader doing a full level-0 iteration
          doneKeys,
          listHeld, freed                         \* the SkipList handle exists; the nodes have been deallocated
vars == <<nxt, height, linked0, ipc, ih, ilevel, ix, iprev, iobs, rpc, rx, rlevel, rseen, rstartDone, doneKeys, listHeld, freed>>

Init == /\ nxt = [n \in Nodes |-> [l \in Levels |-> NIL]]
        /\ height = [n \in Nodes |-> IF n = 0 THEN MAXH ELSE 0]
        /\ linked0 = {}
        /\ ipc = [i \in I |-> "start"] /\ ih = [i \in I |-> 0] /\ ilevel = [i \in I |-> MAXH] /\ ix = [i \in I |-> 0]
        /\ iprev = [i \in I |-> [l \in Levels |-> 0]] /\ iobs = [i \in I |-> [l \in Levels |-> NIL]]
        /\ rpc = "idle" /\ rx = 0 /\ rlevel = 1 /\ rseen = <<>> /\ rstartDone = {}
        /\ doneKeys = {}
        /\ listHeld = TRUE /\ freed = FALSE

After(k, n) == n # NIL /\ n < k          \* key_is_after_node

(* -------------------------------- inserters ------------------------------- *)
\* choose a height and start the search at the head, top level
IStart(i) == /\ ipc[i] = "start" /\ listHeld
             /\ \E h \in Levels : ih' = [ih EXCEPT ![i] = h]
             /\ ix' = [ix EXCEPT ![i] = 0] /\ ilevel' = [ilevel EXCEPT ![i] = MAXH]
             /\ ipc' = [ipc EXCEPT ![i] = "search"]
             /\ UNCHANGED <<nxt, height, linked0, iprev, iobs, rpc, rx, rlevel, rseen, rstartDone, doneKeys, listHeld, freed>>
\* one iteration of the search loop: one load of x.nxt[level]
ISearch(i) ==
  /\ ipc[i] = "search"
  /\ LET k == Inserters[i]  l == ilevel[i]  n == nxt[ix[i]][l] IN
     IF After(k, n)
     THEN ix' = [ix EXCEPT ![i] = n] /\ UNCHANGED <<ilevel, iprev, iobs, ipc>>
     ELSE /\ iprev' = [iprev EXCEPT ![i][l] = ix[i]] /\ iobs' = [iobs EXCEPT ![i][l] = n]
          /\ IF l = 1 THEN ipc' = [ipc EXCEPT ![i] = "setnext"] /\ ilevel' = [ilevel EXCEPT ![i] = 1] /\ UNCHANGED ix
             ELSE ilevel' = [ilevel EXCEPT ![i] = l - 1] /\ UNCHANGED <<ipc, ix>>
  /\ UNCHANGED <<nxt, height, linked0, ih, rpc, rx, rlevel, rseen, rstartDone, doneKeys, listHeld, freed>>
\* node_ptr::set_next(x, level, obs[level]) ; the node becomes dereferenceable with its height on first use
ISetNext(i) ==
  /\ ipc[i] = "setnext"
  /\ LET k == Inserters[i]  l == ilevel[i] IN
     /\ height' = [height EXCEPT ![k] = ih[i]]
     /\ nxt' = IF "CasBeforeSetNext" \in Dev THEN nxt ELSE [nxt EXCEPT ![k][l] = iobs[i][l]]
  /\ ipc' = [ipc EXCEPT ![i] = "cas"]
  /\ UNCHANGED <<linked0, ih, ilevel, ix, iprev, iobs, rpc, rx, rlevel, rseen, rstartDone, doneKeys, listHeld, freed>>
ICas(i) ==
  /\ ipc[i] = "cas"
  /\ LET k == Inserters[i]  l == ilevel[i]  p == iprev[i][l] IN
     IF nxt[p][l] = iobs[i][l]
     THEN /\ nxt' = IF "CasBeforeSetNext" \in Dev
                    THEN [nxt EXCEPT ![p][l] = k]                \* successor of x is set only afterwards
                    ELSE [nxt EXCEPT ![p][l] = k]
          /\ linked0' = IF l = 1 THEN linked0 \cup {k} ELSE linked0
          /\ IF "CasBeforeSetNext" \in Dev THEN ipc' = [ipc EXCEPT ![i] = "latesetnext"] /\ UNCHANGED <<ilevel, doneKeys>>
             ELSE IF l = ih[i] THEN ipc' = [ipc EXCEPT ![i] = "done"] /\ doneKeys' = doneKeys \cup {k} /\ UNCHANGED ilevel
             ELSE ipc' = [ipc EXCEPT ![i] = "setnext"] /\ ilevel' = [ilevel EXCEPT ![i] = l + 1] /\ UNCHANGED doneKeys
     ELSE /\ ipc' = [ipc EXCEPT ![i] = "advance"] /\ UNCHANGED <<nxt, linked0, ilevel, doneKeys>>
  /\ UNCHANGED <<height, ih, ix, iprev, iobs, rpc, rx, rlevel, rseen, rstartDone, listHeld, freed>>
ILateSetNext(i) ==
  /\ ipc[i] = "latesetnext"
  /\ LET k == Inserters[i]  l == ilevel[i] IN
     /\ nxt' = [nxt EXCEPT ![k][l] = iobs[i][l]]
     /\ IF l = ih[i] THEN ipc' = [ipc EXCEPT ![i] = "done"] /\ doneKeys' = doneKeys \cup {k} /\ UNCHANGED ilevel
        ELSE ipc' = [ipc EXCEPT ![i] = "setnext"] /\ ilevel' = [ilevel EXCEPT ![i] = l + 1] /\ UNCHANGED doneKeys
  /\ UNCHANGED <<height, linked0, ih, ix, iprev, iobs, rpc, rx, rlevel, rseen, rstartDone, listHeld, freed>>
\* the 'advancing loop after a failed CAS: one load per step from prev[level]
IAdvance(i) ==
  /\ ipc[i] = "advance"
  /\ LET k == Inserters[i]  l == ilevel[i]  n == nxt[iprev[i][l]][l] IN
     IF After(k, n) THEN iprev' = [iprev EXCEPT ![i][l] = n] /\ UNCHANGED <<iobs, ipc>>
     ELSE iobs' = [iobs EXCEPT ![i][l] = n] /\ ipc' = [ipc EXCEPT ![i] = "setnext"] /\ UNCHANGED iprev
  /\ UNCHANGED <<nxt, height, linked0, ih, ilevel, ix, rpc, rx, rlevel, rseen, rstartDone, doneKeys, listHeld, freed>>

(* ---------------------------------- reader -------------------------------- *)
\* a full iteration at level 0 (seek_to_first; next ...), one load per step
RStart == /\ rpc = "idle" /\ listHeld /\ rpc' = "iter" /\ rx' = 0 /\ rseen' = <<>> /\ rstartDone' = doneKeys
          /\ UNCHANGED <<nxt, height, linked0, ipc, ih, ilevel, ix, iprev, iobs, rlevel, doneKeys, listHeld, freed>>
RStep == /\ rpc = "iter"
         /\ LET n == nxt[rx][1] IN
            IF n = NIL THEN rpc' = "end" /\ UNCHANGED <<rx, rseen>>
            ELSE rx' = n /\ rseen' = Append(rseen, n) /\ UNCHANGED rpc
         /\ UNCHANGED <<nxt, height, linked0, ipc, ih, ilevel, ix, iprev, iobs, rlevel, rstartDone, doneKeys, listHeld, freed>>
\* the iterator is dropped; it was the last owner of the body if the SkipList is gone
REnd == /\ rpc = "end" /\ rpc' = "idle"
        /\ freed' = (freed \/ ~listHeld)
        /\ UNCHANGED <<nxt, height, linked0, ipc, ih, ilevel, ix, iprev, iobs, rx, rlevel, rseen, rstartDone, doneKeys, listHeld>>

(* --------------------------------- ownership ------------------------------ *)
\* drop(SkipList): needs exclusive access to the handle, so no insert (&self) is in flight; iterators
\* are independent owners ("will keep the body of the skiplist in-memory even after the skiplist
\* itself goes out of scope")
DropList == /\ listHeld /\ \A i \in I : ipc[i] \in {"start", "done"}
            /\ listHeld' = FALSE
            /\ freed' = IF "DropFreesUnderIterators" \in Dev THEN TRUE ELSE (rpc = "idle")
            /\ UNCHANGED <<nxt, height, linked0, ipc, ih, ilevel, ix, iprev, iobs, rpc, rx, rlevel, rseen, rstartDone, doneKeys>>

Next == (\E i \in I : IStart(i) \/ ISearch(i) \/ ISetNext(i) \/ ICas(i) \/ ILateSetNext(i) \/ IAdvance(i)) \/ RStart \/ RStep \/ REnd \/ DropList
Spec == Init /\ [][Next]_vars

(* -------------------------------- properties ------------------------------ *)
\* the level-1 chain from the head, as a sequence of nodes
RECURSIVE Chain(_, _, _)
Chain(n, l, fuel) == IF n = NIL \/ fuel = 0 THEN <<>> ELSE <<n>> \o Chain(nxt[n][l], l, fuel - 1)
Level(l) == Tail(Chain(0, l, Cardinality(Nodes) + 1))
Sorted(s) == \A a, b \in 1..Len(s) : a < b => s[a] < s[b]
\* every level is a strictly increasing chain (each key once), and upper levels are sub-chains of level 1
LevelsSorted == \A l \in Levels : Sorted(Level(l))
UpperSubsetOfLower == \A l \in Levels : {Level(l)[j] : j \in 1..Len(Level(l))} \subseteq {Level(1)[j] : j \in 1..Len(Level(1))} \cup {k \in KeysAll : k \notin doneKeys}
\* no lost insert: a completed insert is reachable at level 1
NoLostInsert == doneKeys \subseteq {Level(1)[j] : j \in 1..Len(Level(1))}
\* nothing is dereferenced above its height
WithinHeight == \A n \in Nodes : \A l \in Levels : (nxt[n][l] # NIL) => l <= height[n] \/ height[n] = 0
\* an iteration yields strictly increasing keys, each once, and at its end has seen every insert
\* completed before it started
IterSorted == Sorted(rseen)
IterSeesCompleted == rpc = "end" => rstartDone \subseteq {rseen[j] : j \in 1..Len(rseen)}
\* an iterator remains valid for as long as it is held: no node is deallocated under it
IterValidWhileHeld == rpc \in {"iter", "end"} => ~freed
IterOnlyInserted == {rseen[j] : j \in 1..Len(rseen)} \subseteq linked0
=============================================================================
