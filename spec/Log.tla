--------------------------------- MODULE Log ---------------------------------
(***************************************************************************)
(* The write-ahead log of sst/src/log.rs as arithmetic on offsets.         *)
(*                                                                         *)
(* Writer (LogBuilder::_append / append_split / true_up): a batch of `len` *)
(* bytes becomes a WHOLE frame, or - if it would cross the next block      *)
(* boundary - zero padding to the boundary when at most HDRMAX bytes are   *)
(* left, else a FIRST frame filling the block (minus HDRMAX), zero padding *)
(* to the boundary, and a SECOND frame.                                    *)
(* A frame is: 1 byte header length, the header (HdrLen(size) - 1 bytes),  *)
(* the body.                                                               *)
(*                                                                         *)
(* Reader (LogIterator::next / next_frame / next_header / true_up) on a    *)
(* file cut to `cut` bytes: EOF at a header-length byte ends the log; EOF  *)
(* inside a header or body is an error; a zero length byte skips to the    *)
(* block boundary; a FIRST frame must be followed by a SECOND.             *)
(*                                                                         *)
(* BLOCK, HDRMAX and HdrLen are parameters so that the same operators are  *)
(* model-checked exhaustively at toy scale and evaluated at the real scale *)
(* (2^20, 19, 9 + varint_len(size)) to predict the implementation's files. *)
(***************************************************************************)
EXTENDS Naturals, Integers, Sequences, FiniteSets, TLC

CONSTANTS BLOCK, HDRMAX, Scale     \* Scale = "toy" | "real"

\* total header bytes including the leading length byte
VarintLen(n) == IF n < 128 THEN 1 ELSE IF n < 16384 THEN 2 ELSE IF n < 2097152 THEN 3 ELSE 4
HdrLen(size) == IF Scale = "real" THEN 9 + VarintLen(size)
                ELSE 2 + (IF size >= 4 THEN 1 ELSE 0) + (IF size >= 12 THEN 1 ELSE 0)   \* toy: 2..4 <= HDRMAX

NextBoundary(off) == ((off \div BLOCK) + 1) * BLOCK

(* ------------------------------- writer -------------------------------- *)
\* frames: sequence of [kind, off, hdr, len, batch]; kind in "whole","first","second","pad"
RECURSIVE AppendAt(_, _, _, _)
AppendAt(frames, w, len, batch) ==        \* returns [frames, w]
  LET nb == NextBoundary(w)
      newOff == w + HdrLen(len) + len
  IN IF newOff <= nb
     THEN [frames |-> Append(frames, [kind |-> "whole", off |-> w, hdr |-> HdrLen(len), len |-> len, batch |-> batch]), w |-> newOff]
     ELSE LET roundup == nb - w
          IN IF roundup <= HDRMAX
             THEN AppendAt(IF roundup = 0 THEN frames ELSE Append(frames, [kind |-> "pad", off |-> w, hdr |-> 0, len |-> roundup, batch |-> 0]), nb, len, batch)
             ELSE LET firstLen == roundup - HDRMAX
                      w1 == w + HdrLen(firstLen) + firstLen
                      padLen == nb - w1
                      secondLen == len - firstLen
                      f1 == Append(frames, [kind |-> "first", off |-> w, hdr |-> HdrLen(firstLen), len |-> firstLen, batch |-> batch])
                      f2 == IF padLen = 0 THEN f1 ELSE Append(f1, [kind |-> "pad", off |-> w1, hdr |-> 0, len |-> padLen, batch |-> 0])
                      f3 == Append(f2, [kind |-> "second", off |-> nb, hdr |-> HdrLen(secondLen), len |-> secondLen, batch |-> batch])
                  IN [frames |-> f3, w |-> nb + HdrLen(secondLen) + secondLen]

RECURSIVE WriteAll(_, _, _, _)
WriteAll(sizes, i, frames, w) ==
  IF i > Len(sizes) THEN [frames |-> frames, w |-> w]
  ELSE LET r == AppendAt(frames, w, sizes[i], i) IN WriteAll(sizes, i + 1, r.frames, r.w)
Layout(sizes) == WriteAll(sizes, 1, <<>>, 0)

\* file length after each append (what LogBuilder::approximate_size reports)
RECURSIVE Lengths(_, _, _, _)
Lengths(sizes, i, w, acc) ==
  IF i > Len(sizes) THEN acc
  ELSE LET r == AppendAt(<<>>, w, sizes[i], i) IN Lengths(sizes, i + 1, r.w, Append(acc, r.w))

(* ------------------------------- reader -------------------------------- *)
\* The reader walks the byte stream; the model walks the frames that the bytes up to `cut` still
\* describe.  Result: [batches |-> sequence of batch ids delivered, end |-> "end" | "error"].
FrameAt(frames, off) == LET hits == {i \in 1..Len(frames) : frames[i].off = off} IN IF hits = {} THEN 0 ELSE CHOOSE i \in hits : TRUE

TrueUp(off) == IF off % BLOCK = 0 THEN off ELSE NextBoundary(off)

RECURSIVE ReadFrom(_, _, _, _, _)
\* pendingFirst: batch id of a FIRST frame whose SECOND is awaited (0 = none)
ReadFrom(frames, cut, off, got, pendingFirst) ==
  LET endOrErr == IF pendingFirst # 0 THEN "error" ELSE "end"      \* no second header after a first
  IN IF off >= cut THEN [batches |-> got, end |-> endOrErr]      \* EOF at the header length byte
     ELSE LET i == FrameAt(frames, off)
          IN IF i = 0 THEN [batches |-> got, end |-> "error"]       \* cannot happen on files the writer produced
             ELSE LET f == frames[i]
                  IN IF f.kind = "pad"
                     THEN \* a zero length byte: skip to the boundary (at most HDRMAX bytes), keep looking for a header
                          IF TrueUp(off + 1) - (off + 1) > HDRMAX THEN [batches |-> got, end |-> "error"]
                          ELSE ReadFrom(frames, cut, TrueUp(off + 1), got, pendingFirst)
                     ELSE IF off + f.hdr > cut THEN [batches |-> got, end |-> "error"]          \* EOF inside the header
                     ELSE IF off + f.hdr + f.len > cut THEN [batches |-> got, end |-> "error"]  \* EOF inside the body
                     ELSE LET next == off + f.hdr + f.len
                          IN IF pendingFirst # 0
                             THEN IF f.kind = "second" THEN ReadFrom(frames, cut, next, Append(got, f.batch), 0)
                                  ELSE [batches |-> got, end |-> "error"]
                             ELSE IF f.kind = "whole" THEN ReadFrom(frames, cut, next, Append(got, f.batch), 0)
                             ELSE IF f.kind = "first"
                                  THEN \* true_up after a FIRST frame, then the SECOND
                                       IF TrueUp(next) - next > HDRMAX THEN [batches |-> got, end |-> "error"]
                                       ELSE ReadFrom(frames, cut, TrueUp(next), got, f.batch)
                             ELSE [batches |-> got, end |-> "error"]                              \* a stray SECOND
Read(frames, cut) == ReadFrom(frames, cut, 0, <<>>, 0)

(* ------------------------------ properties ------------------------------ *)
IsPrefixIds(got, n) == Len(got) <= n /\ \A i \in 1..Len(got) : got[i] = i
\* reading the whole file returns every batch once, in order, and ends
RoundTrip(sizes) == LET lay == Layout(sizes) r == Read(lay.frames, lay.w)
                    IN r.end = "end" /\ r.batches = [i \in 1..Len(sizes) |-> i]
\* a cut at any byte yields a prefix of the batches and then ends or reports an error
TornTail(sizes) == LET lay == Layout(sizes)
                   IN \A cut \in 0..lay.w : LET r == Read(lay.frames, cut) IN IsPrefixIds(r.batches, Len(sizes))
\* a cut loses only the tail: every batch that lies wholly before the cut is delivered
LosesOnlyTail(sizes) ==
  LET lay == Layout(sizes)
      endOf(b) == LET fs == {i \in 1..Len(lay.frames) : lay.frames[i].batch = b} j == CHOOSE j \in fs : \A k \in fs : lay.frames[j].off >= lay.frames[k].off
                  IN lay.frames[j].off + lay.frames[j].hdr + lay.frames[j].len
  IN \A cut \in 0..lay.w : LET r == Read(lay.frames, cut) IN \A b \in 1..Len(sizes) : endOf(b) <= cut => b <= Len(r.batches)
\* layout sanity: frames tile the file, no frame straddles a block boundary, padding is short
WellFormed(sizes) ==
  LET lay == Layout(sizes) fr == lay.frames
  IN /\ (\A k \in 1..Len(sizes) : sizes[k] <= BLOCK - 2 * HDRMAX) =>
          \A i \in 1..Len(fr) : (fr[i].off \div BLOCK) = ((fr[i].off + fr[i].hdr + fr[i].len - 1) \div BLOCK)
     /\ \A i \in 1..Len(fr) : fr[i].kind = "pad" => fr[i].len <= HDRMAX /\ (fr[i].off + fr[i].len) % BLOCK = 0
     /\ \A i \in 1..Len(fr)-1 : fr[i].off + fr[i].hdr + fr[i].len = fr[i+1].off
     /\ (fr # <<>> => fr[1].off = 0 /\ fr[Len(fr)].off + fr[Len(fr)].hdr + fr[Len(fr)].len = lay.w)
=============================================================================
