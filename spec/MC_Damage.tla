----------------------------- MODULE MC_Damage -----------------------------
(* The grid of damage classes of Damage.tla, one initial state per class, printed for the campaign driver:  *)
(* file kind x region kind (x frame kind for logs) x which region of that kind x position in it x damage.   *)
EXTENDS Damage, Json
VARIABLES f, rk, fr, w, p, d
vars == <<f, rk, fr, w, p, d>>
Frames(file) == IF file = "log" THEN {"whole", "first", "second", ""} ELSE {""}
ByteDamage == {[kind |-> "flip", bit |-> 0], [kind |-> "flip", bit |-> 3], [kind |-> "flip", bit |-> 7],
               [kind |-> "over", byte |-> 0], [kind |-> "over", byte |-> 255], [kind |-> "over", byte |-> 10], [kind |-> "over", byte |-> 256],
               [kind |-> "trunc"]}
Init == /\ f \in (FileKinds \ {"store"}) /\ rk \in RegionKinds(f) /\ fr \in Frames(f) /\ w \in Which /\ p \in PosClasses /\ d \in ByteDamage
        /\ (f = "log" => (rk = "pad" <=> fr = ""))             \* padding belongs to no frame
Next == UNCHANGED vars
Spec == Init /\ [][Next]_vars
Line == [file |-> f, dmg |-> d @@ [rkind |-> rk, frame |-> fr, which |-> w, pos |-> p]]
EmitLine == PrintT(<<"DMG", ToJson(Line)>>)
=============================================================================
