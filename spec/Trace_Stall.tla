---------------------------- MODULE Trace_Stall ----------------------------
(* C20 on the real tree: threads calling LsmTree::ingest against running compaction threads.      *)
(* Every call begins (ib) and ends (ie); the run ends with `end` when every caller finished, or    *)
(* with `hang` when the watchdog found callers still inside ingest: there is no action for `hang`. *)
(* Stall.tla says which configurations must make progress; this specification only accepts traces *)
(* in which they did.                                                                               *)
EXTENDS Naturals, Sequences, FiniteSets, TLC, TLCExt, Json, IOUtils
Rec == ndJsonDeserialize(IOEnv.TRACE)
VARIABLES l, inside, returned, total
vars == <<l, inside, returned, total>>
Ev == Rec[l]
G(name, cond) == IF cond THEN TRUE ELSE Print(<<"GUARD-FAILED", name, "line", l>>, FALSE)
Is(e) == l <= Len(Rec) /\ Rec[l].ev = e /\ l' = l + 1
Init == l = 1 /\ inside = {} /\ returned = 0 /\ total = 0
Start == Is("start") /\ inside' = {} /\ returned' = 0 /\ total' = Ev.ingesters * Ev.iters
IB == Is("ib") /\ inside' = inside \cup {<<Ev.g, Ev.i>>} /\ UNCHANGED <<returned, total>>
IE == /\ Is("ie")
      /\ G("no fault-free ingest fails (C01)", Ev.ok)
      /\ G("a return matches a call", <<Ev.g, Ev.i>> \in inside)
      /\ inside' = inside \ {<<Ev.g, Ev.i>>} /\ returned' = returned + 1 /\ UNCHANGED total
End == /\ Is("end")
       /\ G("every ingest returned (C20)", inside = {} /\ returned = total)
       /\ G("no compaction thread failed", Ev.thread_errors = <<>>)
       /\ G("every ingested key reads back its newest value after concurrent ingests and compactions (C01/C05)", Ev.missing = 0 /\ Ev.wrong = 0)
       /\ G("the history written by concurrent ingests and compactions verifies (C04)", Ev.verify \in {"ok", "backoff"})
       /\ UNCHANGED <<inside, returned, total>>
TraceNext == Start \/ IB \/ IE \/ End
TraceSpec == Init /\ [][TraceNext]_vars
TraceAccepted ==
  LET d == TLCGet("stats").diameter IN
  IF d - 1 = Len(Rec) THEN TRUE
  ELSE Print(<<"TRACE-REJECTED", "matched", d - 1, "of", Len(Rec), "next", ToJson(Rec[d])>>, FALSE)
=============================================================================
