--------------------------------- MODULE Text ---------------------------------
(***************************************************************************)
(* What a text index must answer (C19), as a plain scan of the text.       *)
(* A text is a sequence of symbols (naturals); records are given by their  *)
(* start offsets (0-based, strictly increasing, the first one 0, the last  *)
(* one inside the text).  Offsets and record numbers are 0-based as in     *)
(* scrunch::Document.                                                      *)
(* A bit vector is a sequence of 0/1: access, rank (ones before position   *)
(* x, defined for 0..len) and select (the least position with rank x: just *)
(* after the x-th one).                                                    *)
(***************************************************************************)
EXTENDS Naturals, Sequences, FiniteSets

WellFormed(text, starts) == /\ starts # <<>> /\ starts[1] = 0 /\ starts[Len(starts)] < Len(text)
                            /\ \A i \in 1..(Len(starts) - 1) : starts[i] < starts[i + 1]
OccursAt(text, needle, off) == off + Len(needle) <= Len(text) /\ SubSeq(text, off + 1, off + Len(needle)) = needle
\* the empty needle is found at every offset of the text
Search(text, needle) == {off \in 0..(Len(text) - 1) : OccursAt(text, needle, off)}
Count(text, needle) == Cardinality(Search(text, needle))
Records(starts) == Len(starts)
\* the record that holds offset `off`: the last one that starts at or before it
Lookup(starts, off) == (CHOOSE r \in 1..Len(starts) : starts[r] <= off /\ (r = Len(starts) \/ starts[r + 1] > off)) - 1
Limit(text, starts, r) == IF r + 2 <= Len(starts) THEN starts[r + 2] ELSE Len(text)
Retrieve(text, starts, r) == SubSeq(text, starts[r + 1] + 1, Limit(text, starts, r))
OffsetOf(starts, r) == starts[r + 1]
\* the records tile the text
Tiles(text, starts) == \A off \in 0..(Len(text) - 1) :
                         LET r == Lookup(starts, off) IN OffsetOf(starts, r) <= off /\ off < Limit(text, starts, r)

Access(bits, x) == bits[x + 1]
Ones(bits, n) == Cardinality({i \in 1..n : bits[i] = 1})
Rank(bits, x) == Ones(bits, x)
HasSelect(bits, x) == x <= Ones(bits, Len(bits))
\* (the position right after the x-th one; 0 for x = 0)
Select(bits, x) == IF x = 0 THEN 0 ELSE CHOOSE p \in 1..Len(bits) : bits[p] = 1 /\ Ones(bits, p) = x
=============================================================================
