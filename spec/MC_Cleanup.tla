------------------------------ MODULE MC_Cleanup ------------------------------
(***************************************************************************)
(* Cleanup.tla with the emission of every reachable crash image together  *)
(* with what the model's Reopen makes of it: one line per crashed state,   *)
(* materialised and reopened by the real store (vh cleanup-replay).        *)
(***************************************************************************)
EXTENDS Cleanup, Json

Image == [frags |-> frags, sst |-> sst, trash |-> trash, logs |-> logs,
          listed |-> ListedIn(ReF2), sst2 |-> ReSst2 \ ReOrphans, trash2 |-> trash \cup ReOrphans, moved |-> ReOrphans]
Emit == up \/ PrintT(<<"IMG", ToJson(Image)>>)
=============================================================================
