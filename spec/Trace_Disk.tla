----------------------------- MODULE Trace_Disk -----------------------------
(***************************************************************************)
(* The key-value store seen through its mutating system calls (shim) and   *)
(* the harness's marks around every public operation, for crash, fault and *)
(* clean-up properties (C02, C08).                                         *)
(*                                                                         *)
(* State: per path the bytes written and the bytes covered by the last     *)
(* successful fsync/fdatasync (hard links share the counters), the set of  *)
(* names, the history of write operations with their status, and the       *)
(* abstract map.                                                           *)
(*                                                                         *)
(* Checked: a write is acknowledged only when the log file that received   *)
(* it is synced up to its end; an SST is linked into sst/ only when fully  *)
(* synced; nothing under sst/, no live log and no manifest is ever         *)
(* unlinked; after a crash before any call (model a: calls persist; model  *)
(* b: unsynced bytes are lost) or an injected fault, a reopen in a fresh   *)
(* process succeeds and reads exactly: every acknowledged write, each      *)
(* unreturned or failed one wholly or not at all, nothing else; a verifier *)
(* pass afterwards accepts and leaves the contents unchanged.              *)
(***************************************************************************)
EXTENDS Naturals, Integers, Sequences, FiniteSets, SequencesExt, TLC, TLCExt, Json, IOUtils

Rec == ndJsonDeserialize(IOEnv.TRACE)

VARIABLES l, nkeys,
          names,    \* path -> file id
          fl,       \* file id -> [w |-> bytes written, s |-> bytes synced]
          nextid,
          hist,     \* write operations: [ents |-> <<<<k, v>>...>>, st |-> "inflight" | "acked" | "failed"]
          lastLog,  \* path of the log file that received the most recent write call
          faulted, phase

vars == <<l, nkeys, names, fl, nextid, hist, lastLog, faulted, phase>>

Ev == Rec[l]
Has(r, f) == f \in DOMAIN r
G(name, cond) == IF cond THEN TRUE ELSE Print(<<"GUARD-FAILED", name, "line", l>>, FALSE)
IsCall(c) == l <= Len(Rec) /\ Rec[l].call = c /\ l' = l + 1
IsMark(op) == l <= Len(Rec) /\ Rec[l].call = "mark" /\ Rec[l].mark.op = op /\ l' = l + 1
Fails == (Has(Ev, "fail") /\ Ev.fail # 0) \/ (Has(Ev, "ret") /\ Ev.ret # 0)

StartsWith(p, pre) == Len(p) >= Len(pre) /\ SubSeq(p, 1, Len(pre)) = pre
IsLog(p)   == StartsWith(p, "log.")
IsSst(p)   == StartsWith(p, "sst/")
IsTmp(p)   == StartsWith(p, "tmp/") \/ StartsWith(p, "compaction/")
IsTrash(p) == StartsWith(p, "trash/")
IsMani(p)  == StartsWith(p, "mani/MANIFEST")
IsVerify(p) == StartsWith(p, "verify/")

(* ------------------------------ abstract map ----------------------------- *)
\* apply a batch <<<<k, v>>, ...>> (v = 0 deletes) to a map [1..nkeys -> value id or 0]
RECURSIVE ApplyBatch(_, _, _)
ApplyBatch(m, ents, i) == IF i > Len(ents) THEN m ELSE ApplyBatch([m EXCEPT ![ents[i][1]] = ents[i][2]], ents, i + 1)
RECURSIVE FoldSel(_, _, _, _)
FoldSel(m, h, S, n) == IF n = 0 THEN m
                       ELSE LET prev == FoldSel(m, h, S, n - 1)
                            IN IF h[n].st = "acked" \/ n \in S THEN ApplyBatch(prev, h[n].ents, 1) ELSE prev
Empty == [k \in 1..nkeys |-> 0]
Optional(h) == {n \in 1..Len(h) : h[n].st # "acked"}
Code(c) == IF c <= 0 THEN 0 ELSE c
\* all of a batch's keys or none: FoldSel applies whole batches only
Allowed(h, gets) == \E S \in SUBSET Optional(h) :
                      LET m == FoldSel(Empty, h, S, Len(h)) IN \A k \in 1..nkeys : Code(gets[k]) = m[k]

OpEntries(op) == CASE op[1] = "put" -> <<<<op[2], op[3]>>>>
                   [] op[1] = "del" -> <<<<op[2], 0>>>>
                   [] op[1] = "batch" -> op[2]
                   [] OTHER -> <<>>
IsWriteOp(op) == op[1] \in {"put", "del", "batch"}

(* --------------------------------- events -------------------------------- *)
Init == /\ l = 1 /\ nkeys = 0 /\ names = <<>> /\ fl = <<>> /\ nextid = 1 /\ hist = <<>> /\ lastLog = ""
        /\ faulted = FALSE /\ phase = "run"

Reset == /\ IsCall("reset")
         /\ nkeys' = 0 /\ names' = <<>> /\ fl' = <<>> /\ nextid' = 1 /\ hist' = <<>> /\ lastLog' = ""
         /\ faulted' = FALSE /\ phase' = "run"

FailedCall == /\ l <= Len(Rec) /\ Rec[l].call \notin {"mark", "reset", "crash", "stall"} /\ Fails
              /\ l' = l + 1 /\ faulted' = TRUE
              /\ UNCHANGED <<nkeys, names, fl, nextid, hist, lastLog, phase>>

Dirs == /\ (IsCall("mkdir") \/ IsCall("rmdir")) /\ ~Fails
        /\ UNCHANGED <<nkeys, names, fl, nextid, hist, lastLog, faulted, phase>>

Creat == /\ IsCall("creat") /\ ~Fails
         /\ names' = (Ev.path :> nextid) @@ names
         /\ fl' = (nextid :> [w |-> 0, s |-> 0]) @@ fl
         /\ nextid' = nextid + 1
         /\ UNCHANGED <<nkeys, hist, lastLog, faulted, phase>>

Known(p) == p \in DOMAIN names
Write == /\ (IsCall("write") \/ IsCall("pwrite")) /\ ~Fails
         /\ IF Known(Ev.path)
            THEN fl' = [fl EXCEPT ![names[Ev.path]].w = @ + Ev.len] /\ UNCHANGED <<names, nextid>>
            ELSE \* a file created before the shim looked (LOCKFILE of a previous open): start tracking it
                 /\ names' = (Ev.path :> nextid) @@ names
                 /\ fl' = (nextid :> [w |-> Ev.len, s |-> 0]) @@ fl
                 /\ nextid' = nextid + 1
         /\ lastLog' = IF IsLog(Ev.path) THEN Ev.path ELSE lastLog
         /\ UNCHANGED <<nkeys, hist, faulted, phase>>

Sync == /\ (IsCall("fsync") \/ IsCall("fdatasync")) /\ ~Fails
        /\ IF Known(Ev.path) THEN fl' = [fl EXCEPT ![names[Ev.path]].s = fl[names[Ev.path]].w] ELSE fl' = fl
        /\ UNCHANGED <<nkeys, names, nextid, hist, lastLog, faulted, phase>>

Link == /\ IsCall("link") /\ ~Fails
        /\ G("an SST is linked into sst/ only when all of it is synced (C02)",
             IsSst(Ev.path2) => (Known(Ev.path) => (fl[names[Ev.path]].w > 0 /\ fl[names[Ev.path]].s = fl[names[Ev.path]].w)))
        /\ names' = IF Known(Ev.path) THEN (Ev.path2 :> names[Ev.path]) @@ names ELSE names
        /\ UNCHANGED <<nkeys, fl, nextid, hist, lastLog, faulted, phase>>

Rename == /\ IsCall("rename") /\ ~Fails
          /\ G("only logs, retired SSTs and the manifest roll-up are renamed (C08)",
               \/ (IsLog(Ev.path) /\ IsTrash(Ev.path2))
               \/ (IsSst(Ev.path) /\ IsTrash(Ev.path2))
               \/ (Ev.path = "mani/MANIFEST.tmp" /\ Ev.path2 = "mani/MANIFEST")
               \/ (Ev.path = "verify/MANIFEST.tmp" /\ Ev.path2 = "verify/MANIFEST"))
          /\ G("a manifest roll-up is synced before it is installed (C13)",
               IsMani(Ev.path2) => (Known(Ev.path) => fl[names[Ev.path]].s = fl[names[Ev.path]].w))
          /\ names' = IF Known(Ev.path)
                      THEN [n \in (DOMAIN names \ {Ev.path}) \cup {Ev.path2} |-> IF n = Ev.path2 THEN names[Ev.path] ELSE names[n]]
                      ELSE names
          /\ UNCHANGED <<nkeys, fl, nextid, hist, lastLog, faulted, phase>>

\* the schedule in which the memtable thread is descheduled just before it renames the log it has flushed into trash/
\* (shim SHIM_STALL_AT): the call is not made; every other thread runs on until the crash
Stall == /\ IsCall("stall")
         /\ G("only the retirement of a flushed log is held back", IsLog(Ev.path) /\ IsTrash(Ev.path2))
         /\ UNCHANGED <<nkeys, names, fl, nextid, hist, lastLog, faulted, phase>>

Unlink == /\ IsCall("unlink") /\ ~Fails
          /\ G("only temporaries, trash, processed manifest fragments and verifier files are unlinked (C08)",
               \/ IsTmp(Ev.path) \/ IsTrash(Ev.path) \/ IsVerify(Ev.path)
               \/ (IsMani(Ev.path) /\ Ev.path # "mani/MANIFEST")
               \/ phase = "closed")
          /\ names' = [n \in DOMAIN names \ {Ev.path} |-> names[n]]
          /\ UNCHANGED <<nkeys, fl, nextid, hist, lastLog, faulted, phase>>

Trunc == /\ IsCall("ftruncate") /\ ~Fails
         /\ UNCHANGED <<nkeys, names, fl, nextid, hist, lastLog, faulted, phase>>

MOpenBegin == /\ IsMark("open-begin")
              /\ nkeys' = IF Has(Ev.mark, "nkeys") THEN Ev.mark.nkeys ELSE nkeys
              /\ UNCHANGED <<names, fl, nextid, hist, lastLog, faulted, phase>>
MOpenAck == /\ IsMark("open-ack")
            /\ G("open reads what was written (C01/C02)", Allowed(hist, Ev.mark.gets))
            /\ UNCHANGED <<nkeys, names, fl, nextid, hist, lastLog, faulted, phase>>
MOpenErr == /\ IsMark("open-err")
            /\ G("open fails only after a fault", faulted)
            /\ UNCHANGED <<nkeys, names, fl, nextid, hist, lastLog, faulted, phase>>

MBegin == /\ IsMark("begin")
          /\ hist' = IF IsWriteOp(Ev.mark.opv) THEN Append(hist, [ents |-> OpEntries(Ev.mark.opv), st |-> "inflight"]) ELSE hist
          /\ UNCHANGED <<nkeys, names, fl, nextid, lastLog, faulted, phase>>

MAck == /\ IsMark("ack")
        /\ LET isw == Ev.mark.ev = "write"
               h2 == IF isw THEN [hist EXCEPT ![Len(hist)].st = "acked"] ELSE hist
           IN /\ hist' = h2
              /\ G("a write returns only when its log bytes are synced (C02)",
                   isw => (lastLog # "" /\ Known(lastLog) /\ fl[names[lastLog]].s = fl[names[lastLog]].w))
              /\ G("reads after the operation = acknowledged writes (C01)", Has(Ev.mark, "gets") => Allowed(h2, Ev.mark.gets))
              /\ G("the verifier accepts unless a fault was injected (C04/C08)", (Has(Ev.mark, "verdict") /\ ~faulted) => Ev.mark.verdict \in {"ok", "backoff"})
        /\ UNCHANGED <<nkeys, names, fl, nextid, lastLog, faulted, phase>>

MErr == /\ IsMark("err")
        /\ G("an operation fails only after a fault (C01)", faulted)
        /\ hist' = IF hist # <<>> /\ hist[Len(hist)].st = "inflight" THEN [hist EXCEPT ![Len(hist)].st = "failed"] ELSE hist
        /\ UNCHANGED <<nkeys, names, fl, nextid, lastLog, faulted, phase>>

MClose == /\ IsMark("close") /\ phase' = "closed"
          /\ UNCHANGED <<nkeys, names, fl, nextid, hist, lastLog, faulted>>

\* crash before a call: (a) every completed call persists; (b) unsynced bytes are lost as well
Crash == /\ IsCall("crash")
         /\ fl' = IF Ev.model = "b" THEN [i \in DOMAIN fl |-> [fl[i] EXCEPT !.w = fl[i].s]] ELSE fl
         /\ phase' = "crashed"
         /\ UNCHANGED <<nkeys, names, nextid, hist, lastLog, faulted>>

MRecovered == /\ IsMark("recovered")
              /\ G("recovery: every acknowledged write, unreturned or failed ones wholly or not at all, nothing else (C02)",
                   Allowed(hist, Ev.mark.gets))
              /\ G("a verifier pass after recovery accepts (C04/C08)", Ev.mark.verdict \in {"ok", "backoff"})
              /\ G("the verifier pass leaves the contents unchanged (C08)", Ev.mark.gets_after_verify = Ev.mark.gets)
              /\ UNCHANGED <<nkeys, names, fl, nextid, hist, lastLog, faulted, phase>>
\* "reopening never needs manual repair for a crash between whole system calls": no action for "recover-err"

TraceNext == \/ Reset \/ FailedCall \/ Dirs \/ Creat \/ Write \/ Sync \/ Link \/ Rename \/ Stall \/ Unlink \/ Trunc
             \/ MOpenBegin \/ MOpenAck \/ MOpenErr \/ MBegin \/ MAck \/ MErr \/ MClose \/ Crash \/ MRecovered
TraceSpec == Init /\ [][TraceNext]_vars

TraceAccepted ==
  LET d == TLCGet("stats").diameter IN
  IF d - 1 = Len(Rec) THEN TRUE
  ELSE Print(<<"TRACE-REJECTED", "matched", d - 1, "of", Len(Rec), "next", ToJson(Rec[d])>>, FALSE)
=============================================================================
