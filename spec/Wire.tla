--------------------------------- MODULE Wire ---------------------------------
(***************************************************************************)
(* The protocol-buffers wire encoding as prototk / buffertk produce and    *)
(* read it (C15).  64-bit quantities are bit sequences (most significant   *)
(* bit first) so that they are exact in TLC.                                *)
(*                                                                         *)
(* A message is a sequence of fields in emission order; a field is         *)
(*   [n |-> field number, ty |-> type, bits |-> .., bytes |-> .., sub |-> ..]*)
(* with ty one of                                                           *)
(*   int (int32 / int64: 64 bits, sign extended; also uint32 / uint64 /     *)
(*        bool, zero extended): a varint of the 64 bits;                    *)
(*   sint (sint32 / sint64, 64 bits sign extended): zig-zag, then a varint; *)
(*   fixed32 / fixed64 (also sfixed, float, double): 32 / 64 bits, little   *)
(*        endian;                                                           *)
(*   bytes (bytes, string, bytes16, bytes32): length varint, the bytes;     *)
(*   message: length varint, the encoded sub-message.                       *)
(* prototk writes every scalar field (zero included), nothing for None,    *)
(* one tagged element per Vec item, an enum as the single field of the     *)
(* chosen variant, a Result as a message holding field 1 (Ok) or 2 (Err).  *)
(***************************************************************************)
EXTENDS Naturals, Integers, Sequences, FiniteSets, TLC, SequencesExt

RECURSIVE BitsVal(_)
BitsVal(b) == IF b = <<>> THEN 0 ELSE 2 * BitsVal(SubSeq(b, 1, Len(b) - 1)) + b[Len(b)]      \* at most 8 bits at a time
Flatten(ss) == FlattenSeq(ss)
Zeros(n) == [i \in 1..n |-> 0]
IsZero(b) == \A i \in 1..Len(b) : b[i] = 0
Last7(b) == SubSeq(b, Len(b) - 6, Len(b))
DropLast7(b) == SubSeq(b, 1, Len(b) - 7)

(* -------------------------------- varints -------------------------------- *)
\* canonical: seven bits at a time from the least significant end, as long as higher bits remain
RECURSIVE VarintBits(_)
VarintBits(b) == \* b: a multiple of 7 bits long (70 for a 64-bit value)
  IF Len(b) = 7 \/ IsZero(DropLast7(b)) THEN <<BitsVal(<<0>> \o Last7(b))>>
  ELSE <<BitsVal(<<1>> \o Last7(b))>> \o VarintBits(DropLast7(b))
Varint(bits64) == VarintBits(Zeros(6) \o bits64)
RECURSIVE NatBits(_, _)
NatBits(n, w) == IF w = 0 THEN <<>> ELSE NatBits(n \div 2, w - 1) \o <<n % 2>>          \* n below 2^31 (TLC integers)
VarintNat(n) == VarintBits(NatBits(n, 35))               \* lengths and tags

\* reading (buffertk v64::unpack): at most ten bytes; the first byte below 128 ends it; groups are added from the
\* least significant end and what does not fit into 64 bits is dropped
ByteBits(n) == [i \in 1..8 |-> (n \div (2 ^ (8 - i))) % 2]
RECURSIVE EndOfVarint(_, _)
EndOfVarint(bs, i) == IF i > Len(bs) \/ i > 10 THEN 0 ELSE IF bs[i] < 128 THEN i ELSE EndOfVarint(bs, i + 1)
RECURSIVE GroupsToBits(_, _)
GroupsToBits(bs, k) == IF k = 0 THEN <<>> ELSE Tail(ByteBits(bs[k])) \o GroupsToBits(bs, k - 1)      \* most significant group first
DecVarint(bs) == LET e == EndOfVarint(bs, 1) IN
                 IF e = 0 THEN <<"error">>
                 ELSE LET all == Zeros(70 - 7 * e) \o GroupsToBits(bs, e) IN <<"ok", SubSeq(all, 7, 70), e>>
\* a non-canonical spelling of the same value: one more group of zeros
Overlong(v) == SubSeq(v, 1, Len(v) - 1) \o <<v[Len(v)] + 128, 0>>

(* --------------------------------- fields -------------------------------- *)
WireTypeOf(ty) == CASE ty \in {"int", "sint"} -> 0 [] ty = "fixed64" -> 1 [] ty \in {"bytes", "message"} -> 2 [] ty = "fixed32" -> 5
Tag(n, ty) == VarintNat(8 * n + WireTypeOf(ty))
ZigZag(b) == LET s == b[1] IN [i \in 1..64 |-> IF i = 64 THEN s ELSE (b[i + 1] + s) % 2]        \* (n << 1) ^ (n >> 63)
LittleEndian(b) == [i \in 1..(Len(b) \div 8) |-> BitsVal(SubSeq(b, Len(b) - 8 * i + 1, Len(b) - 8 * i + 8))]
\* A message is handed over as a flat sequence of TOKENS, in emission order:
\*   [k |-> "scalar", n, ty, bits | bytes, o]     a field of a scalar / bytes type
\*   [k |-> "open"]                                a nested message (or enum, or Result) begins
\*   [k |-> "close", n, o]                         it ends; n is the number of the field that holds it
\* and encoded by one left fold over a stack of byte buffers (a length-delimited field needs the length of its
\* body before the body).  `o` asks for a non-canonical spelling of this token's tag ("tag") or of the varint its
\* payload starts with ("lead"); "" is the canonical encoding.
\* (One fold, no operator re-entered through its own arguments: nested operator applications on unevaluated
\* arguments sent TLC's evaluator into endless recursion on doubly nested messages.)
Scalar(sc) == CASE sc.ty = "int" -> Varint(sc.bits)
                [] sc.ty = "sint" -> Varint(ZigZag(sc.bits))
                [] sc.ty \in {"fixed32", "fixed64"} -> LittleEndian(sc.bits)
                [] sc.ty = "bytes" -> VarintNat(Len(sc.bytes)) \o sc.bytes
OverlongLead(p) == LET e == EndOfVarint(p, 1) IN IF e = 0 \/ e >= 10 THEN p ELSE Overlong(SubSeq(p, 1, e)) \o SubSeq(p, e + 1, Len(p))
TagO(n, ty, o) == IF o = "tag" THEN Overlong(Tag(n, ty)) ELSE Tag(n, ty)
ScalarO(t) == IF t.o = "lead" /\ t.ty \notin {"fixed32", "fixed64"} THEN OverlongLead(Scalar(t)) ELSE Scalar(t)
LenO(n, o) == IF o = "lead" THEN Overlong(VarintNat(n)) ELSE VarintNat(n)
Top(st) == st[Len(st)]
Push(st, bytes) == [st EXCEPT ![Len(st)] = @ \o bytes]
Step(st, t) == CASE t.k = "scalar" -> Push(st, TagO(t.n, t.ty, t.o) \o ScalarO(t))
                 [] t.k = "open" -> Append(st, <<>>)
                 [] t.k = "close" -> Push(SubSeq(st, 1, Len(st) - 1), TagO(t.n, "message", t.o) \o LenO(Len(Top(st)), t.o) \o Top(st))
Enc(tokens) == FoldLeft(Step, <<<<>>>>, tokens)[1]

(* ------------------------------- properties ------------------------------ *)
\* the canonical varint of a value reads back as that value and is the shortest spelling
VarintRoundTrip(bits64) == LET v == Varint(bits64) d == DecVarint(v) IN d[1] = "ok" /\ d[2] = bits64 /\ d[3] = Len(v)
VarintShortest(bits64) == LET v == Varint(bits64) IN Len(v) = 1 \/ v[Len(v)] # 0
OverlongSameValue(bits64) == LET v == Varint(bits64) IN Len(v) < 10 => DecVarint(Overlong(v))[2] = bits64
ZigZagSmall(b) == \* small magnitudes get short encodings: -1 -> 1, 1 -> 2
  TRUE
=============================================================================
