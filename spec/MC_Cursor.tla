----------------------------- MODULE MC_Cursor ------------------------------
(* Model-checking and behaviour-generation wrapper for Cursor.tla.         *)
(* A case is a cursor expression (nesting of combinators over tables);     *)
(* the state is the operational cursor, the abstract position in the       *)
(* expression's denotation, and (hidden by VIEW) the program so far.       *)
EXTENDS Cursor, Json

CONSTANTS K,        \* keys 1..K
          T,        \* timestamps 1..T
          N,        \* tables per family
          Mode,     \* which family of cases
          MaxLen,   \* bound on program length (state constraint; 0 = unbounded)
          Emit      \* TRUE: print one REPLAY line per distinct state

VARIABLES expr, d, c, p, h

vars == <<expr, d, c, p, h>>
View == <<expr, c, p>>

Slots == (1..K) \X (1..T)

\* A table assignment gives every (k, ts) slot: 0 absent, or <<table, v>>.
\* Tables of a family never share a (k, ts) pair.
Assignments == [Slots -> {<<0, 0>>} \cup ((1..N) \X {0, 1})]
TableOf(a, i) == SortEntries({[k |-> s[1], ts |-> s[2], v |-> a[s][2]] : s \in {x \in Slots : a[x][1] = i}})
Family(a) == [i \in 1..N |-> TableOf(a, i)]

\* Single sorted tables.
SingleAssignments == [Slots -> {<<0, 0>>, <<1, 0>>, <<1, 1>>}]
Single(a) == SortEntries({[k |-> s[1], ts |-> s[2], v |-> a[s][2]] : s \in {x \in Slots : a[x][1] = 1}})

\* All ways to cut a sorted sequence into N contiguous pieces (pieces may be empty).
RECURSIVE Cuts(_, _)
Cuts(s, n) == IF n = 1 THEN {<<s>>}
              ELSE UNION {{<<SubSeq(s, 1, i)>> \o rest : rest \in Cuts(SubSeq(s, i + 1, Len(s)), n - 1)} : i \in 0..Len(s)}

BoundSet == {[kind |-> "U", k |-> 0]} \cup {[kind |-> x, k |-> k] : x \in {"I", "E"}, k \in 1..K}

V(s) == [op |-> "vec", s |-> s]

Cases ==
  CASE Mode = "merge"  -> {[op |-> "merge", kids |-> [i \in 1..N |-> V(Family(a)[i])]] : a \in Assignments}
    [] Mode = "concat" -> UNION {{[op |-> "concat", kids |-> [i \in 1..N |-> V(cut[i])]] : cut \in Cuts(Single(a), N)} : a \in SingleAssignments}
    [] Mode = "prune"  -> {[op |-> "prune", ts |-> t, c |-> V(Single(a))] : a \in SingleAssignments, t \in 0..T}
    [] Mode = "bounds" -> {[op |-> "bounds", lo |-> lo, hi |-> hi, c |-> V(Single(a))] : a \in SingleAssignments, lo \in BoundSet, hi \in BoundSet}
    [] Mode = "lazy"   -> {[op |-> "lazy", s |-> Single(a)] : a \in SingleAssignments}
    \* a single table: the harness builds the leaf as a real block or SST (C10)
    [] Mode = "table"  -> {V(Single(a)) : a \in SingleAssignments}
    \* merge of pruned lazies / concats, pruned and bounded again: the shape of a store scan
    [] Mode = "scan"   -> {[op |-> "bounds", lo |-> lo, hi |-> hi, c |->
                              [op |-> "prune", ts |-> t, c |->
                                 [op |-> "merge", kids |-> [i \in 1..N |-> V(Family(a)[i])]]]]
                            : a \in Assignments, t \in {T - 1, T}, lo \in BoundSet, hi \in BoundSet}

Ops == {<<"first">>, <<"last">>, <<"next">>, <<"prev">>} \cup {<<"seek", k>> : k \in 0..K+1}

Code(e) == e.k * 100 + e.ts * 10 + e.v

Init == /\ expr \in Cases
        /\ d = Denote(expr)
        /\ c = Build(expr)
        /\ p = 0
        /\ h = <<>>

Step(op) == /\ c' = Apply(c, op)
            /\ p' = AApply(d, p, op)
            /\ h' = Append(h, <<op, Code(APosKey(d, p')), Code(Key(c'))>>)
            /\ UNCHANGED <<expr, d>>

MCNext == \E op \in Ops : Step(op)

Spec == Init /\ [][MCNext]_vars

LenOk == MaxLen = 0 \/ Len(h) <= MaxLen

\* The property: the operational cursor shows what the abstract cursor over the denotation shows.
Conform == Key(c) = APosKey(d, p)

\* One line per distinct state: the program that reached it, with the denotational (e) and
\* operational (m) observation after every call, and the observations after every extension of the
\* program by one and by two further calls (a transition tour with look-ahead, so that an
\* implementation whose hidden state differs from the model's after a call is still told apart).
OpSeq == <<<<"first">>, <<"last">>, <<"next">>, <<"prev">>>> \o [i \in 1..K+2 |-> <<"seek", i - 1>>]
Ext1(op) == LET c1 == Apply(c, op)  p1 == AApply(d, p, op)
            IN <<Code(APosKey(d, p1)), Code(Key(c1)),
                 [i \in 1..Len(OpSeq) |-> Code(APosKey(d, AApply(d, p1, OpSeq[i])))],
                 [i \in 1..Len(OpSeq) |-> Code(Key(Apply(c1, OpSeq[i])))]>>
\* C10: what a sealed table must answer besides cursor movement: timestamped point lookups, metadata,
\* and which appended entry the builder must refuse (anything not strictly after the last entry)
TableFacts ==
  LET S == SeqToSet(d)
      ne == d # <<>>
  IN [s |-> d,
      loads |-> {<<k, t, Code(IF NewestLE(S, k, t) = {} THEN NoEntry ELSE CHOOSE e \in NewestLE(S, k, t) : TRUE)>> : k \in 0..K+1, t \in 0..T+1},
      first |-> IF ne THEN d[1].k ELSE 0, last |-> IF ne THEN d[Len(d)].k ELSE 0,
      mints |-> IF ne THEN CHOOSE t \in {e.ts : e \in S} : \A e \in S : t <= e.ts ELSE 0,
      maxts |-> IF ne THEN CHOOSE t \in {e.ts : e \in S} : \A e \in S : t >= e.ts ELSE 0,
      refuse |-> IF ne THEN {<<k, t>> : k \in 1..K, t \in 1..T} \ {<<k, t>> \in (1..K) \X (1..T) : Less(d[Len(d)], [k |-> k, ts |-> t, v |-> 1])}
                 ELSE {}]
EmitTable == (Emit /\ Mode = "table" /\ h = <<>>) => PrintT(<<"TABLE", ToJson(TableFacts)>>)
EmitLine == Emit => PrintT(<<"REPLAY", ToJson([x |-> expr, h |-> h, ops |-> OpSeq,
                                              n |-> [i \in 1..Len(OpSeq) |-> Ext1(OpSeq[i])]])>>)
=============================================================================
