------------------------------ MODULE StateTable ------------------------------
(***************************************************************************)
(* sync42::state_hash_table (the rendezvous table; not one of the listed   *)
(* properties - part of growing the specification over the system).        *)
(* A table maps a key to a value; handles are counted references.          *)
(*   create(k)        a handle to a fresh value, or nothing if k is there  *)
(*   get(k)           a handle to k's value, or nothing                    *)
(*   get_or_create(k) always a handle; at pointer granularity: look up     *)
(*                    under the lock; if absent, leave the lock, build a   *)
(*                    value, take the lock again and look up again         *)
(*   finish(h)        the value's `finished` becomes true                  *)
(*   drop(h)          under the lock: the entry goes away iff this was the *)
(*                    last handle and the value is finished                *)
(* Values are generations (naturals).                                      *)
(***************************************************************************)
EXTENDS Naturals, Sequences, FiniteSets, TLC
CONSTANTS Keys, Threads, MaxGen, MaxOps

VARIABLES table,      \* key -> generation or 0
          finished,   \* set of finished generations
          held,       \* thread -> set of [k, g] handles
          pc, tk, tv, \* per thread: state of a get_or_create in progress, its key, the value it built (0 = none)
          nextGen, ops, removed
vars == <<table, finished, held, pc, tk, tv, nextGen, ops, removed>>
Init == /\ table = [k \in Keys |-> 0] /\ finished = {} /\ held = [t \in Threads |-> {}]
        /\ pc = [t \in Threads |-> "idle"] /\ tk = [t \in Threads |-> CHOOSE k \in Keys : TRUE] /\ tv = [t \in Threads |-> 0]
        /\ nextGen = 1 /\ ops = 0 /\ removed = {}
Refs(g) == Cardinality({t \in Threads : \E h \in held[t] : h.g = g})      \* (one handle per thread and generation is enough here)
Bump == ops' = ops + 1
Create(t, k) == /\ pc[t] = "idle" /\ ops < MaxOps /\ nextGen <= MaxGen /\ Bump
                /\ IF table[k] = 0
                   THEN table' = [table EXCEPT ![k] = nextGen] /\ held' = [held EXCEPT ![t] = @ \cup {[k |-> k, g |-> nextGen]}]
                   ELSE UNCHANGED <<table, held>>
                /\ nextGen' = nextGen + 1        \* the value is built before the lock is taken, used or not
                /\ UNCHANGED <<finished, pc, tk, tv, removed>>
Get(t, k) == /\ pc[t] = "idle" /\ ops < MaxOps /\ Bump
             /\ IF table[k] # 0 THEN held' = [held EXCEPT ![t] = @ \cup {[k |-> k, g |-> table[k]]}] ELSE UNCHANGED held
             /\ UNCHANGED <<table, finished, pc, tk, tv, nextGen, removed>>
\* get_or_create, three steps
GocLook(t, k) == /\ pc[t] = "idle" /\ ops < MaxOps /\ Bump
                 /\ IF table[k] # 0
                    THEN held' = [held EXCEPT ![t] = @ \cup {[k |-> k, g |-> table[k]]}] /\ UNCHANGED <<pc, tk>>
                    ELSE pc' = [pc EXCEPT ![t] = "make"] /\ tk' = [tk EXCEPT ![t] = k] /\ UNCHANGED held
                 /\ UNCHANGED <<table, finished, tv, nextGen, removed>>
GocMake(t) == /\ pc[t] = "make" /\ nextGen <= MaxGen
              /\ tv' = [tv EXCEPT ![t] = nextGen] /\ nextGen' = nextGen + 1 /\ pc' = [pc EXCEPT ![t] = "again"]
              /\ UNCHANGED <<table, finished, held, tk, ops, removed>>
GocAgain(t) == /\ pc[t] = "again"
               /\ LET k == tk[t] IN
                  IF table[k] # 0 THEN held' = [held EXCEPT ![t] = @ \cup {[k |-> k, g |-> table[k]]}] /\ UNCHANGED table
                  ELSE table' = [table EXCEPT ![k] = tv[t]] /\ held' = [held EXCEPT ![t] = @ \cup {[k |-> k, g |-> tv[t]]}]
               /\ pc' = [pc EXCEPT ![t] = "idle"] /\ tv' = [tv EXCEPT ![t] = 0]
               /\ UNCHANGED <<finished, tk, nextGen, ops, removed>>
Finish(t) == /\ \E h \in held[t] : finished' = finished \cup {h.g}
             /\ UNCHANGED <<table, held, pc, tk, tv, nextGen, ops, removed>>
Drop(t) == /\ \E h \in held[t] :
                /\ held' = [held EXCEPT ![t] = @ \ {h}]
                /\ IF Refs(h.g) = 1 /\ h.g \in finished /\ table[h.k] = h.g
                   THEN table' = [table EXCEPT ![h.k] = 0] /\ removed' = removed \cup {h.g}
                   ELSE UNCHANGED <<table, removed>>
           /\ UNCHANGED <<finished, pc, tk, tv, nextGen, ops>>
Next == \E t \in Threads : (\E k \in Keys : Create(t, k) \/ Get(t, k) \/ GocLook(t, k)) \/ GocMake(t) \/ GocAgain(t) \/ Finish(t) \/ Drop(t)
Spec == Init /\ [][Next]_vars
\* rendezvous: everyone who holds a handle for k holds the same value, and it is the one in the table
Rendezvous == \A t \in Threads : \A h \in held[t] : table[h.k] = h.g
\* a value someone still holds, or that is not finished, is never collected
NeverCollectedEarly == \A g \in removed : g \in finished /\ Refs(g) = 0
\* a collected value is gone from the table for good
Gone == \A g \in removed : \A k \in Keys : table[k] # g
=============================================================================
