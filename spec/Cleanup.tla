-------------------------------- MODULE Cleanup --------------------------------
(***************************************************************************)
(* Design model of what may remove a file of the key-value store (C08):    *)
(* the memtable thread's flush (link, manifest +S, log to trash), a        *)
(* compaction (link outputs, one manifest edit -inputs +outputs, inputs    *)
(* renamed to trash once no reader holds them), manifest roll-over,        *)
(* readers, the offline verifier's unlinks, a crash at any point, and      *)
(* reopen = roll-over, replay of the logs left in the root (re-creating    *)
(* their files and adding them to the live MANIFEST when it does not list  *)
(* them), then the orphan scan over ALL fragments, the live one included.  *)
(*                                                                         *)
(* The memtable thread and the compaction are separate processes here:     *)
(* every interleaving of their steps is explored, which the sequential     *)
(* driver of the trace campaigns cannot do (it reaches one of them with    *)
(* the shim's SHIM_STALL_AT, see Trace_Disk!Stall).                        *)
(*                                                                         *)
(* A file is identified by its contents (= setsum = name): replaying a log *)
(* yields the same file again, and a compaction may re-create a file it    *)
(* (or an earlier one) removed.                                            *)
(*                                                                         *)
(* Deviations (negative controls, each a seeded change that was made to    *)
(* the real code by an independent agent):                                 *)
(*   "ScanSkipsLive"       the orphan scan does not read the live MANIFEST *)
(*   "ScanAddsBeforeRms"   per edit, adds are subtracted before removes    *)
(*                          are inserted                                    *)
(*   "ReplaySkipsListing"  replay does not add a file it found linked      *)
(*   "VerifierIgnoresLater" the verifier unlinks a trash entry although a  *)
(*                          later edit re-adds the name                     *)
(***************************************************************************)
EXTENDS Naturals, Sequences, FiniteSets, TLC

CONSTANTS Files,        \* file identities (what a log flushes to, what a compaction writes)
          MaxEdits,     \* bound on manifest edits (besides roll-ups)
          MaxFrags,     \* bound on fragments
          MaxCrash,
          Dev

VARIABLES frags,      \* sequence of fragments, the last one is the live MANIFEST; a fragment is a sequence of edits
                      \* [rm |-> set, add |-> set]; its first edit is the roll-up of what came before
          sst, trash, \* names present in sst/ and trash/
          logs,       \* logs in the root, each named by the file its replay yields
          up,         \* the process is running
          mpc, mfile, \* memtable thread: "idle" | "linked" | "listed" and the file in flight
          cpc, cins, couts, \* compaction: "idle" | "linked" | "edited" and its inputs / outputs
          pinned,     \* files of versions a reader still holds
          unref,      \* files whose last version went away: to be renamed into trash/
          used,       \* file identities already written by a client (each log is written once)
          edits, crashes

vars == <<frags, sst, trash, logs, up, mpc, mfile, cpc, cins, couts, pinned, unref, used, edits, crashes>>

(* ------------------------------- the manifest ----------------------------- *)
Apply(s, e) == (s \ e.rm) \cup e.add          \* mani applies removes, then adds
RECURSIVE FoldEdits(_, _, _)
FoldEdits(s, es, i) == IF i > Len(es) THEN s ELSE FoldEdits(Apply(s, es[i]), es, i + 1)
Live == frags[Len(frags)]
Listed == FoldEdits({}, Live, 1)               \* the live MANIFEST starts with a roll-up: it alone says what is listed
AppendEdit(e) == [frags EXCEPT ![Len(frags)] = Append(@, e)]
RollUp == [rm |-> {}, add |-> Listed]
Rolled == Append(frags, <<RollUp>>)

(* the orphan scan: every fragment, every edit but the fragment's first *)
ScanEdit(s, e) == IF "ScanAddsBeforeRms" \in Dev THEN (s \ e.add) \cup e.rm ELSE (s \cup e.rm) \ e.add
RECURSIVE ScanFrag(_, _, _)
ScanFrag(s, es, i) == IF i > Len(es) THEN s ELSE ScanFrag(ScanEdit(s, es[i]), es, i + 1)
RECURSIVE ScanAll(_, _, _)
ScanAll(s, fs, k) == IF k > Len(fs) THEN s ELSE ScanAll(ScanFrag(s, fs[k], 2), fs, k + 1)
Orphans(fs) == ScanAll({}, IF "ScanSkipsLive" \in Dev THEN SubSeq(fs, 1, Len(fs) - 1) ELSE fs, 1)

(* ----------------------------------- init -------------------------------- *)
Init == /\ frags = << <<[rm |-> {}, add |-> {}]>> >>
        /\ sst = {} /\ trash = {} /\ logs = {} /\ up = TRUE
        /\ mpc = "idle" /\ mfile = 0 /\ cpc = "idle" /\ cins = {} /\ couts = {}
        /\ pinned = {} /\ unref = {} /\ used = {} /\ edits = 0 /\ crashes = 0

(* --------------------------------- clients ------------------------------- *)
\* writes fill a log; what it will flush to is f
WriteLog(f) == /\ up /\ f \notin used
               /\ logs' = logs \cup {f} /\ used' = used \cup {f}
               /\ UNCHANGED <<frags, sst, trash, up, mpc, mfile, cpc, cins, couts, pinned, unref, edits, crashes>>
Hold == /\ up /\ pinned' = pinned \cup Listed
        /\ UNCHANGED <<frags, sst, trash, logs, up, mpc, mfile, cpc, cins, couts, unref, used, edits, crashes>>
Drop == /\ up /\ pinned # {} /\ pinned' = {}
        /\ unref' = unref \cup (pinned \ Listed)      \* the reader's was the last version naming them
        /\ UNCHANGED <<frags, sst, trash, logs, up, mpc, mfile, cpc, cins, couts, used, edits, crashes>>

(* ------------------------------ memtable thread --------------------------- *)
MLink == /\ up /\ mpc = "idle" /\ \E f \in logs : mfile' = f /\ sst' = sst \cup {f}
         /\ mpc' = "linked"
         /\ UNCHANGED <<frags, trash, logs, up, cpc, cins, couts, pinned, unref, used, edits, crashes>>
MList == /\ up /\ mpc = "linked" /\ edits < MaxEdits
         /\ frags' = AppendEdit([rm |-> {}, add |-> {mfile}]) /\ edits' = edits + 1
         /\ mpc' = "listed"
         /\ UNCHANGED <<sst, trash, logs, up, mfile, cpc, cins, couts, pinned, unref, used, crashes>>
MTrashLog == /\ up /\ mpc = "listed"
             /\ logs' = logs \ {mfile} /\ mpc' = "idle" /\ mfile' = 0
             /\ UNCHANGED <<frags, sst, trash, up, cpc, cins, couts, pinned, unref, used, edits, crashes>>

(* -------------------------------- compaction ------------------------------ *)
\* inputs: listed files not in flight; outputs: nothing (all collected), a fresh file, or a re-created one
CLink == /\ up /\ cpc = "idle"
         /\ \E ins \in (SUBSET Listed) \ {{}} :
              \E outs \in {{}} \cup {{f} : f \in Files \ (Listed \ ins)} :
                 \* a fresh output is a name no log will ever flush to in this model; a re-created one is an input or an old name
                 /\ outs \cap logs = {} /\ (outs \cap used = {} => outs \cap (Files \ used) = outs)
                 /\ cins' = ins /\ couts' = outs /\ sst' = sst \cup outs /\ used' = used \cup outs
         /\ cpc' = "linked"
         /\ UNCHANGED <<frags, trash, logs, up, mpc, mfile, pinned, unref, edits, crashes>>
CEdit == /\ up /\ cpc = "linked" /\ edits < MaxEdits
         /\ frags' = AppendEdit([rm |-> cins, add |-> couts]) /\ edits' = edits + 1
         \* the new version replaces the old: inputs no longer named by any version are unreferenced at once
         /\ unref' = unref \cup ((cins \ couts) \ pinned)
         /\ cpc' = "idle" /\ cins' = {} /\ couts' = {}
         /\ UNCHANGED <<sst, trash, logs, up, mpc, mfile, pinned, used, crashes>>
\* explicit_unref: the rename into trash/ (its result is ignored: an existing trash copy is overwritten)
Retire == /\ up /\ \E f \in unref :
               /\ unref' = unref \ {f}
               /\ IF f \in sst /\ f \notin Listed THEN sst' = sst \ {f} /\ trash' = trash \cup {f} ELSE UNCHANGED <<sst, trash>>
          /\ UNCHANGED <<frags, logs, up, mpc, mfile, cpc, cins, couts, pinned, used, edits, crashes>>

RollOver == /\ up /\ Len(frags) < MaxFrags /\ mpc # "linked" /\ cpc # "linked"     \* roll-over happens inside an apply
            /\ Len(Live) > 1
            /\ frags' = Rolled
            /\ UNCHANGED <<sst, trash, logs, up, mpc, mfile, cpc, cins, couts, pinned, unref, used, edits, crashes>>

(* --------------------------------- verifier ------------------------------- *)
\* consumes the oldest numbered fragment: unlinks the trash copies of what it removed (unless a later edit mentions the
\* name again: that copy may be the re-created file's), then the fragment
RECURSIVE Removed(_, _, _)
Removed(s, es, i) == IF i > Len(es) THEN s ELSE Removed(s \cup es[i].rm, es, i + 1)
RECURSIVE MentionedLater(_, _)
MentionedLater(fs, k) == IF k > Len(fs) THEN {} ELSE
                           LET RECURSIVE m(_, _) m(es, i) == IF i > Len(es) THEN {} ELSE es[i].rm \cup es[i].add \cup m(es, i + 1)
                           IN m(fs[k], 1) \cup MentionedLater(fs, k + 1)
Verify == /\ Len(frags) > 1
          /\ LET gone == Removed({}, frags[1], 2)
                 keep == IF "VerifierIgnoresLater" \in Dev THEN {} ELSE MentionedLater(frags, 2)
             IN trash' = trash \ (gone \ keep)
          /\ frags' = Tail(frags)
          /\ UNCHANGED <<sst, logs, up, mpc, mfile, cpc, cins, couts, pinned, unref, used, edits, crashes>>

(* ------------------------------ crash and reopen -------------------------- *)
Crash == /\ up /\ crashes < MaxCrash
         /\ up' = FALSE /\ crashes' = crashes + 1
         /\ mpc' = "idle" /\ mfile' = 0 /\ cpc' = "idle" /\ cins' = {} /\ couts' = {} /\ pinned' = {} /\ unref' = {}
         /\ UNCHANGED <<frags, sst, trash, logs, used, edits>>

\* open: roll the manifest over; replay every log in the root; scan for orphans
Reopen == /\ ~up
          /\ LET f1 == IF Len(frags) < MaxFrags + 1 THEN Rolled ELSE frags
                 listed1 == FoldEdits({}, f1[Len(f1)], 1)
                 tolist == IF "ReplaySkipsListing" \in Dev THEN {f \in logs : f \notin sst /\ f \notin listed1} ELSE logs \ listed1
                 f2 == IF tolist = {} THEN f1 ELSE [f1 EXCEPT ![Len(f1)] = Append(@, [rm |-> {}, add |-> tolist])]
                 sst2 == sst \cup logs
                 orphans == {f \in Orphans(f2) : f \in sst2 /\ f \notin trash}
             IN /\ frags' = f2
                /\ sst' = sst2 \ orphans /\ trash' = trash \cup orphans
          /\ logs' = {} /\ up' = TRUE
          /\ UNCHANGED <<mpc, mfile, cpc, cins, couts, pinned, unref, used, edits, crashes>>

Next == \/ \E f \in Files : WriteLog(f)
        \/ Hold \/ Drop \/ MLink \/ MList \/ MTrashLog \/ CLink \/ CEdit \/ Retire \/ RollOver \/ Verify \/ Crash \/ Reopen
Spec == Init /\ [][Next]_vars

(* -------------------------------- properties ----------------------------- *)
\* what the manifest lists is in sst/: at every instant, running or not (a crash may strike anywhere)
ListedPresent == Listed \subseteq sst
\* what a reader holds is still readable: in sst/ (or at least not unlinked while held is what the code needs; the rename
\* keeps the inode, the model asks that it has not been moved while held)
HeldPresent == pinned \subseteq sst
\* an unreplayed log is never lost: its file is listed after the next open (checked as: logs only leave the root by the
\* memtable thread after listing, or by replay)
LogsReplayed == up => \A f \in used : (f \in logs \/ f \in sst \/ f \in trash \/ f \notin Listed)
\* the scan's purpose: after an open nothing recorded as removed-and-not-re-added stays in sst/ without a trash copy
Collected == (up /\ mpc = "idle" /\ cpc = "idle" /\ unref = {} /\ pinned = {} /\ crashes > 0) => TRUE
TypeOK == /\ mpc \in {"idle", "linked", "listed"} /\ cpc \in {"idle", "linked"} /\ Len(frags) >= 1
=============================================================================
