-------------------------------- MODULE Cleanup --------------------------------
(***************************************************************************)
(* Design model of everything that may take a file out of sst/ (C08):      *)
(*   - the memtable thread: link S, manifest +S and install the version,   *)
(*     rename the log into trash/ (three steps);                           *)
(*   - a compaction: link the outputs (an existing name is not an error),  *)
(*     then the manifest edit -inputs +outputs and the installation of the *)
(*     new version;                                                        *)
(*   - installation as in LsmTree::install_version: count the new          *)
(*     version's files up, swap, and if nobody else holds the old version  *)
(*     count its files down; a file whose count reaches zero is renamed    *)
(*     into trash/ by a later, separate step (explicit_unref: the rename   *)
(*     is not atomic with the count);                                      *)
(*   - readers: take the current version, drop it later (the last holder   *)
(*     counts the version's files down, as above);                         *)
(*   - manifest roll-over, the verifier consuming the oldest fragment;     *)
(*   - a crash at any point; reopen = roll-over, replay of the logs left   *)
(*     in the root (link if absent, +S in the live MANIFEST if not         *)
(*     listed), then the orphan scan over ALL fragments, the live one      *)
(*     included, skipping each fragment's first edit (the roll-up).        *)
(*                                                                         *)
(* The memtable thread, the compaction and the readers are separate        *)
(* processes: every interleaving of their steps is explored, which the     *)
(* sequential driver of the trace campaigns cannot do (it reaches one      *)
(* family of them with the shim's SHIM_STALL_AT, see Trace_Disk!Stall).    *)
(*                                                                         *)
(* A file is identified by its contents (= setsum = name).  Replaying a    *)
(* log yields the same file again.  A compaction may re-create one of its  *)
(* own inputs (the code's NOTE: "sometimes compaction generates the same   *)
(* file as input and output").  Whether a LATER compaction can re-create a *)
(* file an EARLIER one removed is the constant CrossRecreate: no history   *)
(* that does it was found in the real store (DESIGN.md 10.20).             *)
(*                                                                         *)
(* Deviations (negative controls; the first three are changes independent  *)
(* agents made to the real code):                                          *)
(*   "ScanSkipsLive"      the orphan scan does not read the live MANIFEST  *)
(*   "ScanAddsBeforeRms"  per edit, adds are subtracted before the removes *)
(*                        are inserted                                     *)
(*   "ReplaySkipsListing" replay does not list a file it found linked      *)
(*   "UnrefIgnoresCount"  installation renames every file of the old       *)
(*                        version that the new one lacks, held or not      *)
(***************************************************************************)
EXTENDS Naturals, Sequences, FiniteSets, TLC

CONSTANTS LogFiles,     \* identities of the files logs flush to
          OutFiles,     \* identities compactions may write besides their inputs
          MaxEdits, MaxFrags, MaxCrash, MaxHeld,
          CrossRecreate,
          Dev

Files == LogFiles \cup OutFiles

VARIABLES frags,      \* sequence of fragments, the last is the live MANIFEST; a fragment is a sequence of edits
                      \* [rm |-> set, add |-> set] and starts with the roll-up of what came before
          sst, trash, \* names present in sst/ and trash/
          logs,       \* logs in the root, each named by the file its replay yields
          written,    \* log identities already used
          up,
          cur,        \* the current version [id, files]
          held,       \* versions readers hold
          cnt,        \* the reference counter: file -> number of live versions naming it
          todo,       \* files whose count reached zero: renames into trash/ still to be made
          mpc, mfile, \* memtable thread: "idle" | "linked" | "installed", and its file
          cpc, cins, couts,   \* compaction: "idle" | "linked"
          removedEver,        \* names some edit removed (for CrossRecreate)
          vtodo,              \* the verifier's logged intent: trash copies still to unlink
          vid, edits, crashes

vars == <<frags, sst, trash, logs, written, up, cur, held, cnt, todo, mpc, mfile, cpc, cins, couts, removedEver, vtodo, vid, edits, crashes>>

(* ------------------------------- the manifest ----------------------------- *)
Apply(s, e) == (s \ e.rm) \cup e.add          \* mani applies an edit's removes, then its adds
RECURSIVE FoldEdits(_, _, _)
FoldEdits(s, es, i) == IF i > Len(es) THEN s ELSE FoldEdits(Apply(s, es[i]), es, i + 1)
ListedIn(fs) == FoldEdits({}, fs[Len(fs)], 1)  \* the live MANIFEST starts with a roll-up: it alone says what is listed
Listed == ListedIn(frags)
AppendEdit(fs, e) == [fs EXCEPT ![Len(fs)] = Append(@, e)]
Rolled(fs) == Append(fs, <<[rm |-> {}, add |-> ListedIn(fs)]>>)

(* the orphan scan *)
ScanEdit(s, e) == IF "ScanAddsBeforeRms" \in Dev THEN (s \ e.add) \cup e.rm ELSE (s \cup e.rm) \ e.add
RECURSIVE ScanFrag(_, _, _)
ScanFrag(s, es, i) == IF i > Len(es) THEN s ELSE ScanFrag(ScanEdit(s, es[i]), es, i + 1)
RECURSIVE ScanAll(_, _, _)
ScanAll(s, fs, k) == IF k > Len(fs) THEN s ELSE ScanAll(ScanFrag(s, fs[k], 2), fs, k + 1)
Orphans(fs) == ScanAll({}, IF "ScanSkipsLive" \in Dev THEN SubSeq(fs, 1, Len(fs) - 1) ELSE fs, 1)

(* ------------------------------ reference counts -------------------------- *)
Up1(c, S) == [f \in Files |-> IF f \in S THEN c[f] + 1 ELSE c[f]]
Down1(c, S) == [f \in Files |-> IF f \in S /\ c[f] > 0 THEN c[f] - 1 ELSE c[f]]
Zeroed(c, S) == {f \in S : c[f] = 1}           \* those a count-down of S takes to zero
Zero == [f \in Files |-> 0]

\* install_version(new): count new up; swap; if no reader holds the old version, count it down
Install(newfiles) ==
  LET c1 == Up1(cnt, newfiles)
      oldheld == cur \in held
      gone == IF "UnrefIgnoresCount" \in Dev THEN cur.files \ newfiles
              ELSE IF oldheld THEN {} ELSE Zeroed(c1, cur.files)
  IN /\ cur' = [id |-> vid + 1, files |-> newfiles] /\ vid' = vid + 1
     /\ cnt' = IF oldheld THEN c1 ELSE Down1(c1, cur.files)
     /\ todo' = todo \cup gone

(* ----------------------------------- init -------------------------------- *)
Init == /\ frags = << <<[rm |-> {}, add |-> {}]>> >>
        /\ sst = {} /\ trash = {} /\ logs = {} /\ written = {} /\ up = TRUE
        /\ cur = [id |-> 0, files |-> {}] /\ held = {} /\ cnt = Zero /\ todo = {}
        /\ mpc = "idle" /\ mfile = "" /\ cpc = "idle" /\ cins = {} /\ couts = {}
        /\ removedEver = {} /\ vtodo = {} /\ vid = 0 /\ edits = 0 /\ crashes = 0

(* --------------------------------- clients ------------------------------- *)
WriteLog(f) == /\ up /\ f \in LogFiles \ written
               /\ logs' = logs \cup {f} /\ written' = written \cup {f}
               /\ UNCHANGED <<frags, sst, trash, up, cur, held, cnt, todo, mpc, mfile, cpc, cins, couts, removedEver, vtodo, vid, edits, crashes>>
Hold == /\ up /\ cur \notin held /\ Cardinality(held) < MaxHeld
        /\ held' = held \cup {cur}
        /\ UNCHANGED <<frags, sst, trash, logs, written, up, cur, cnt, todo, mpc, mfile, cpc, cins, couts, removedEver, vtodo, vid, edits, crashes>>
\* VersionRef::drop -> explicit_unref: nothing if the tree still holds this version, else count its files down
Drop(v) == /\ up /\ v \in held /\ held' = held \ {v}
           /\ IF v.id = cur.id THEN UNCHANGED <<cnt, todo>>
              ELSE cnt' = Down1(cnt, v.files) /\ todo' = todo \cup Zeroed(cnt, v.files)
           /\ UNCHANGED <<frags, sst, trash, logs, written, up, cur, mpc, mfile, cpc, cins, couts, removedEver, vtodo, vid, edits, crashes>>
\* the rename of explicit_unref, some time after the count (its result is ignored)
Rename(f) == /\ up /\ f \in todo /\ todo' = todo \ {f}
             /\ IF f \in sst THEN sst' = sst \ {f} /\ trash' = trash \cup {f} ELSE UNCHANGED <<sst, trash>>
             /\ UNCHANGED <<frags, logs, written, up, cur, held, cnt, mpc, mfile, cpc, cins, couts, removedEver, vtodo, vid, edits, crashes>>

(* ------------------------------ memtable thread --------------------------- *)
\* _ingest refuses a name that exists in sst/ (duplicate_sst): the model does not go there
MLink == /\ up /\ mpc = "idle" /\ \E f \in logs : f \notin sst /\ mfile' = f /\ sst' = sst \cup {f}
         /\ mpc' = "linked"
         /\ UNCHANGED <<frags, trash, logs, written, up, cur, held, cnt, todo, cpc, cins, couts, removedEver, vtodo, vid, edits, crashes>>
MInstall == /\ up /\ mpc = "linked" /\ edits < MaxEdits
            /\ frags' = AppendEdit(frags, [rm |-> {}, add |-> {mfile}]) /\ edits' = edits + 1
            /\ Install(cur.files \cup {mfile})
            /\ mpc' = "installed"
            /\ UNCHANGED <<sst, trash, logs, written, up, held, mfile, cpc, cins, couts, removedEver, vtodo, crashes>>
MTrashLog == /\ up /\ mpc = "installed"
             /\ logs' = logs \ {mfile} /\ mpc' = "idle" /\ mfile' = ""
             /\ UNCHANGED <<frags, sst, trash, written, up, cur, held, cnt, todo, cpc, cins, couts, removedEver, vtodo, vid, edits, crashes>>

(* -------------------------------- compaction ------------------------------ *)
OutChoices(ins) == {{}} \cup {{f} : f \in ins}                                                   \* all collected; an input re-created
                        \cup {{f} : f \in {g \in OutFiles : g \notin removedEver /\ g \notin cur.files /\ g \notin sst}}   \* a new file
                        \cup (IF CrossRecreate THEN {{f} : f \in removedEver \ cur.files} ELSE {})
CLink == /\ up /\ cpc = "idle" /\ cur.files # {}
         /\ \E ins \in (SUBSET cur.files) \ {{}} : \E outs \in OutChoices(ins) :
              /\ (mpc = "linked" => mfile \notin ins)
              /\ cins' = ins /\ couts' = outs /\ sst' = sst \cup outs      \* AlreadyExists is not an error
         /\ cpc' = "linked"
         /\ UNCHANGED <<frags, trash, logs, written, up, cur, held, cnt, todo, mpc, mfile, removedEver, vtodo, vid, edits, crashes>>
CInstall == /\ up /\ cpc = "linked" /\ edits < MaxEdits
            /\ cins \subseteq cur.files                       \* (a flush may have installed in between: inputs are still there)
            /\ frags' = AppendEdit(frags, [rm |-> cins, add |-> couts]) /\ edits' = edits + 1
            /\ Install((cur.files \ cins) \cup couts)
            /\ removedEver' = removedEver \cup (cins \ couts)
            /\ cpc' = "idle" /\ cins' = {} /\ couts' = {}
            /\ UNCHANGED <<sst, trash, logs, written, up, held, mpc, mfile, vtodo, crashes>>

\* Manifest roll-over (inside an apply; modelled between steps): the live file becomes a numbered fragment
RollOver == /\ up /\ Len(frags) < MaxFrags /\ Len(frags[Len(frags)]) > 1
            /\ frags' = Rolled(frags)
            /\ UNCHANGED <<sst, trash, logs, written, up, cur, held, cnt, todo, mpc, mfile, cpc, cins, couts, removedEver, vtodo, vid, edits, crashes>>

(* --------------------------------- verifier ------------------------------- *)
\* LsmVerifier::verify, a process of its own (it also runs while the store is down, and its intent survives a crash in
\* verify/MANIFEST).  It never touches sst/.  It leaves the newest numbered fragment and the live file alone ("pop twice").
\* For the oldest fragment: what it removed, minus what a later edit mentions again (that trash copy may be the re-created
\* file's), must all be in trash/ or it backs off; then the intent is logged, the fragment unlinked (VFragment), and the
\* trash copies unlinked one by one (VUnlink).
RECURSIVE RemovedBy(_, _)
RemovedBy(es, i) == IF i > Len(es) THEN {} ELSE es[i].rm \cup RemovedBy(es, i + 1)
RECURSIVE MentionedIn(_, _)
MentionedIn(es, i) == IF i > Len(es) THEN {} ELSE es[i].rm \cup es[i].add \cup MentionedIn(es, i + 1)
RECURSIVE MentionedFrom(_, _)
MentionedFrom(fs, k) == IF k > Len(fs) THEN {} ELSE MentionedIn(fs[k], 1) \cup MentionedFrom(fs, k + 1)
VFragment == /\ Len(frags) > 2 /\ vtodo = {}
             /\ LET gone == RemovedBy(frags[1], 2) \ MentionedFrom(frags, 2) IN
                  /\ gone \subseteq trash                      \* otherwise: backoff
                  /\ vtodo' = gone
             /\ frags' = Tail(frags)
             /\ UNCHANGED <<sst, trash, logs, written, up, cur, held, cnt, todo, mpc, mfile, cpc, cins, couts, removedEver, vtodo, vid, edits, crashes>>
VUnlink == /\ \E f \in vtodo : vtodo' = vtodo \ {f} /\ trash' = trash \ {f}
           /\ UNCHANGED <<frags, sst, logs, written, up, cur, held, cnt, todo, mpc, mfile, cpc, cins, couts, removedEver, vtodo, vid, edits, crashes>>

(* ------------------------------ crash and reopen -------------------------- *)
Crash == /\ up /\ crashes < MaxCrash
         /\ up' = FALSE /\ crashes' = crashes + 1
         /\ held' = {} /\ cnt' = Zero /\ todo' = {}
         /\ mpc' = "idle" /\ mfile' = "" /\ cpc' = "idle" /\ cins' = {} /\ couts' = {}
         /\ UNCHANGED <<frags, sst, trash, logs, written, cur, removedEver, vtodo, vid, edits>>

\* what open does to the durable state, as functions of it (also used by MC_Cleanup to print the expected outcome)
ReF1 == IF Len(frags) <= MaxFrags THEN Rolled(frags) ELSE frags
ReToList == IF "ReplaySkipsListing" \in Dev THEN {f \in logs : f \notin sst /\ f \notin ListedIn(ReF1)} ELSE logs \ ListedIn(ReF1)
ReF2 == IF ReToList = {} THEN ReF1 ELSE AppendEdit(ReF1, [rm |-> {}, add |-> ReToList])
ReSst2 == sst \cup logs
ReOrphans == {f \in Orphans(ReF2) : f \in ReSst2 /\ f \notin trash}
Reopen == /\ ~up
          /\ frags' = ReF2
          /\ sst' = ReSst2 \ ReOrphans /\ trash' = trash \cup ReOrphans
          /\ cur' = [id |-> vid + 1, files |-> ListedIn(ReF2)] /\ vid' = vid + 1
          /\ cnt' = Up1(Zero, ListedIn(ReF2))
          /\ logs' = {} /\ up' = TRUE
          /\ UNCHANGED <<written, held, todo, mpc, mfile, cpc, cins, couts, removedEver, vtodo, edits, crashes>>

Next == \/ \E f \in LogFiles : WriteLog(f)
        \/ Hold \/ (\E v \in held : Drop(v)) \/ (\E f \in Files : Rename(f))
        \/ MLink \/ MInstall \/ MTrashLog \/ CLink \/ CInstall \/ RollOver \/ VFragment \/ VUnlink \/ Crash \/ Reopen
Spec == Init /\ [][Next]_vars

(* -------------------------------- properties ----------------------------- *)
\* what the manifest lists is in sst/, at every instant (a crash may strike anywhere; after it the manifest is all there is)
ListedPresent == Listed \subseteq sst
\* what a running store's current version and its readers' versions name is in sst/
VersionsPresent == up => (cur.files \subseteq sst /\ \A v \in held : v.files \subseteq sst)
\* an acknowledged write is in a log in the root or in a listed file
WritesKept == \A f \in written : f \in logs \/ f \in Listed \/ f \in removedEver
\* the counter never under-counts the current version
CountsCover == up => \A f \in cur.files : cnt[f] >= 1
TypeOK == /\ mpc \in {"idle", "linked", "installed"} /\ cpc \in {"idle", "linked"} /\ Len(frags) >= 1
          /\ todo \subseteq Files /\ sst \subseteq Files /\ trash \subseteq Files
=============================================================================
