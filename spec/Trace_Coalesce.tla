--------------------------- MODULE Trace_Coalesce ---------------------------
(* Validation of WorkCoalescingQueue stress traces: events `call` (a thread is about to enter    *)
(* do_work with its input), `work` (the core is handed a batch; logged under the core mutex),     *)
(* `ret` (do_work returned).  This is the externally observable projection of Coalesce.tla:      *)
(*   - the core sees each input exactly once, and only inputs whose call is outstanding;          *)
(*   - inputs of one batch, and batches among themselves, respect real time: an input whose call  *)
(*     returned before another call began is never worked after it;                               *)
(*   - a call returns the output made for its own input, after that input was worked;             *)
(*   - the batch respects the core's can_batch policy;  at the end nothing is outstanding;        *)
(*   - a `hang` event (threads still inside do_work when the watchdog fired) is never accepted.   *)
EXTENDS Naturals, Sequences, FiniteSets, TLC, TLCExt, Json, IOUtils

Rec == ndJsonDeserialize(IOEnv.TRACE)
VARIABLES l, policy, outstanding, worked, returned, order
vars == <<l, policy, outstanding, worked, returned, order>>

Ev == Rec[l]
G(name, cond) == IF cond THEN TRUE ELSE Print(<<"GUARD-FAILED", name, "line", l>>, FALSE)
Is(e) == l <= Len(Rec) /\ Rec[l].ev = e /\ l' = l + 1

Init == l = 1 /\ policy = "" /\ outstanding = {} /\ worked = {} /\ returned = {} /\ order = <<>>
Start == /\ Is("start") /\ policy' = Ev.policy
         /\ outstanding' = {} /\ worked' = {} /\ returned' = {} /\ order' = <<>>
Call == /\ Is("call")
        /\ outstanding' = outstanding \cup {Ev.input}
        /\ UNCHANGED <<policy, worked, returned, order>>
MaxBatch == CASE policy = "all" -> 1000000 [] policy = "limit2" -> 2 [] policy = "limit5" -> 5 [] OTHER -> 1
Work == /\ Is("work")
        /\ LET b == {Ev.batch[i] : i \in 1..Len(Ev.batch)} IN
           /\ G("batch is not empty and matches the count of stolen waiters", Len(Ev.batch) >= 1 /\ Ev.taken = Len(Ev.batch))
           /\ G("no input twice in a batch", Cardinality(b) = Len(Ev.batch))
           /\ G("the core sees only outstanding inputs, each once (C18)", b \subseteq outstanding /\ b \cap worked = {})
           /\ G("the batch respects can_batch (C18)", Len(Ev.batch) <= MaxBatch)
           /\ worked' = worked \cup b
           /\ order' = order \o Ev.batch
        /\ UNCHANGED <<policy, outstanding, returned>>
Ret == /\ Is("ret")
       /\ G("a call returns the output of its own input (C18)", Ev.output = Ev.input + 1000000)
       /\ G("a call returns only after its input was worked (C18/C12)", Ev.input \in worked)
       /\ outstanding' = outstanding \ {Ev.input}
       /\ returned' = returned \cup {Ev.input}
       /\ UNCHANGED <<policy, worked, order>>
End == /\ Is("end")
       /\ G("nothing outstanding at the end, everything worked once", outstanding = {} /\ worked = returned)
       /\ UNCHANGED <<policy, outstanding, worked, returned, order>>
\* no action for "hang": a watchdog report is a rejection ("no call blocks forever")
TraceNext == Start \/ Call \/ Work \/ Ret \/ End
TraceSpec == Init /\ [][TraceNext]_vars
TraceAccepted ==
  LET d == TLCGet("stats").diameter IN
  IF d - 1 = Len(Rec) THEN TRUE
  ELSE Print(<<"TRACE-REJECTED", "matched", d - 1, "of", Len(Rec), "next", ToJson(Rec[d])>>, FALSE)
=============================================================================
