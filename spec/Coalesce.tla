------------------------------- MODULE Coalesce -------------------------------
(***************************************************************************)
(* sync42::WorkCoalescingQueue::do_work over sync42::WaitList, at the      *)
(* granularity of its lock acquisitions, loads, stores, condvar waits and  *)
(* notifies.  One program counter per thread; every thread calls do_work   *)
(* once with its own input.                                                *)
(*                                                                         *)
(* WaitList: ring of SLOTS waiters, head/tail under one mutex (each        *)
(* wait-list method is one atomic step here: it runs entirely under that   *)
(* mutex), `linked` flags, head advances over unlinked slots; link blocks  *)
(* while the ring is full.  Waiters sleep on their own condvar with the    *)
(* queue's `state` mutex; a notify with nobody asleep is lost.             *)
(*                                                                         *)
(* Queue: the head with doing_work = FALSE becomes leader, steals inputs   *)
(* in list order while the core accepts them, works outside the mutex,     *)
(* stores each output and notifies its waiter, unlinks itself, clears      *)
(* doing_work under the mutex and notifies the new head.                   *)
(***************************************************************************)
EXTENDS Naturals, Integers, Sequences, FiniteSets, TLC

CONSTANTS N,          \* threads 1..N
          SLOTS,      \* ring size (65536 in the code)
          Policy,     \* "all" | "limit2" | "none": what the core's can_batch accepts
          Spurious,   \* TRUE: condvar waits may wake without a notify
          Dev         \* named deviations for mutation-style what-ifs (e.g. "NoNotifyHead")

Threads == 1..N

VARIABLES pc,        \* thread -> program counter
          idx,       \* thread -> its wait-list index (0 = not linked yet)
          head, tail,
          linked,    \* index -> BOOLEAN
          val,       \* index -> [k |-> "input" | "stolen" | "output", v |-> thread id]
          asleep,    \* set of indices whose owner sleeps on the waiter's condvar
          ringWait,  \* set of threads blocked in link() because the ring is full
          mutex,     \* holder of the queue's `state` mutex (0 = free)
          doing,     \* doing_work
          taken,     \* leader -> sequence of stolen indices
          scan,      \* leader -> next index to inspect while stealing
          coreLog,   \* sequence of batches the core has worked on (each a sequence of inputs)
          result     \* thread -> returned output (0 = none)

vars == <<pc, idx, head, tail, linked, val, asleep, ringWait, mutex, doing, taken, scan, coreLog, result>>

Idx == 1..(N + 1)
Init == /\ pc = [t \in Threads |-> "link"] /\ idx = [t \in Threads |-> 0]
        /\ head = 1 /\ tail = 1                      \* indices start at 1 here (0 in the code)
        /\ linked = [i \in Idx |-> FALSE]
        /\ val = [i \in Idx |-> [k |-> "none", v |-> 0]]
        /\ asleep = {} /\ ringWait = {} /\ mutex = 0 /\ doing = FALSE
        /\ taken = [t \in Threads |-> <<>>] /\ scan = [t \in Threads |-> 0]
        /\ coreLog = <<>> /\ result = [t \in Threads |-> 0]

Owner(i) == CHOOSE t \in Threads : idx[t] = i
IsHead(t) == head = idx[t]
CanBatch(n) == CASE Policy = "all" -> TRUE [] Policy = "limit2" -> n < 2 [] Policy = "none" -> FALSE

\* wake the sleeper on waiter i, if any (Condvar::notify_one with nobody asleep is lost)
Wake(i, sl) == sl \ {i}
\* a woken thread must re-acquire the mutex: it continues at "relock"
PcAfterWake(p, i) == IF i \in asleep THEN [p EXCEPT ![Owner(i)] = "relock"] ELSE p

(* ------------------------------- WaitList -------------------------------- *)
\* link(): blocks while head + SLOTS <= tail
Link(t) == /\ pc[t] = "link"
           /\ IF head + SLOTS <= tail
              THEN /\ ringWait' = ringWait \cup {t} /\ pc' = [pc EXCEPT ![t] = "ringwait"]
                   /\ UNCHANGED <<idx, head, tail, linked, val, asleep, mutex, doing, taken, scan, coreLog, result>>
              ELSE /\ idx' = [idx EXCEPT ![t] = tail]
                   /\ tail' = tail + 1
                   /\ linked' = [linked EXCEPT ![tail] = TRUE]
                   /\ val' = [val EXCEPT ![tail] = [k |-> "input", v |-> t]]
                   /\ pc' = [pc EXCEPT ![t] = "lock"]
                   /\ UNCHANGED <<head, asleep, ringWait, mutex, doing, taken, scan, coreLog, result>>

\* _unlink(): clear linked, advance head over unlinked slots, wake one ring waiter if any
AdvanceHead(lk, h) == LET cand == {j \in h..tail : \A m \in h..(j - 1) : ~lk[m]} IN
                      CHOOSE j \in cand : \A m \in cand : m <= j      \* largest j with all of h..j-1 unlinked
(* --------------------------------- do_work -------------------------------- *)
Lock(t) == /\ pc[t] \in {"lock", "relock"} /\ mutex = 0
           /\ mutex' = t /\ pc' = [pc EXCEPT ![t] = "check"]
           /\ UNCHANGED <<idx, head, tail, linked, val, asleep, ringWait, doing, taken, scan, coreLog, result>>

\* the `while state.doing_work || !waiter.is_head()` test and the load that follows, under the mutex
Check(t) ==
  /\ pc[t] = "check" /\ mutex = t
  /\ LET v == val[idx[t]] IN
     IF v.k = "output"
     THEN /\ pc' = [pc EXCEPT ![t] = "out_unlink"] /\ result' = [result EXCEPT ![t] = v.v]
          /\ UNCHANGED <<idx, head, tail, linked, val, asleep, ringWait, mutex, doing, taken, scan, coreLog>>
     ELSE IF doing \/ ~IsHead(t)
     THEN \* naked_wait: atomically release the mutex and sleep on the own condvar
          /\ asleep' = asleep \cup {idx[t]} /\ mutex' = 0 /\ pc' = [pc EXCEPT ![t] = "asleep"]
          /\ UNCHANGED <<idx, head, tail, linked, val, ringWait, doing, taken, scan, coreLog, result>>
     ELSE \* become the leader
          /\ Assert(v.k = "input", "stolen at head of line")
          /\ doing' = TRUE /\ scan' = [scan EXCEPT ![t] = idx[t]] /\ taken' = [taken EXCEPT ![t] = <<>>]
          /\ pc' = [pc EXCEPT ![t] = "steal"]
          /\ UNCHANGED <<idx, head, tail, linked, val, asleep, ringWait, mutex, coreLog, result>>

\* one iteration of `for w in waiter.iter()` (other threads may link meanwhile)
Steal(t) ==
  /\ pc[t] = "steal" /\ mutex = t
  /\ LET i == scan[t] IN
     IF i >= tail \/ ~(Len(taken[t]) = 0 \/ CanBatch(Len(taken[t])))
     THEN /\ mutex' = 0 /\ pc' = [pc EXCEPT ![t] = "work"]
          /\ UNCHANGED <<idx, head, tail, linked, val, asleep, ringWait, doing, taken, scan, coreLog, result>>
     ELSE /\ Assert(val[i].k = "input", "head should never witness stolen or output")
          /\ val' = [val EXCEPT ![i].k = "stolen"]
          /\ taken' = [taken EXCEPT ![t] = Append(@, i)]
          /\ scan' = [scan EXCEPT ![t] = i + 1]
          /\ UNCHANGED <<pc, idx, head, tail, linked, asleep, ringWait, mutex, doing, coreLog, result>>

Work(t) == /\ pc[t] = "work"
           /\ coreLog' = Append(coreLog, [j \in 1..Len(taken[t]) |-> val[taken[t][j]].v])
           /\ scan' = [scan EXCEPT ![t] = 1]
           /\ pc' = [pc EXCEPT ![t] = "store"]
           /\ UNCHANGED <<idx, head, tail, linked, val, asleep, ringWait, mutex, doing, taken, result>>

\* w.store(Output(out)); w.notify()  for each taken waiter, in order
Store(t) ==
  /\ pc[t] = "store"
  /\ IF scan[t] > Len(taken[t])
     THEN /\ result' = [result EXCEPT ![t] = val[idx[t]].v]
          /\ pc' = [pc EXCEPT ![t] = "self_unlink"]
          /\ UNCHANGED <<idx, head, tail, linked, val, asleep, ringWait, mutex, doing, taken, scan, coreLog>>
     ELSE LET i == taken[t][scan[t]] IN
          /\ val' = [val EXCEPT ![i].k = "output"]
          /\ asleep' = Wake(i, asleep)
          /\ pc' = PcAfterWake(pc, i)
          /\ scan' = [scan EXCEPT ![t] = @ + 1]
          /\ UNCHANGED <<idx, head, tail, linked, ringWait, mutex, doing, taken, coreLog, result>>

SelfUnlink(t) ==
  /\ pc[t] = "self_unlink"
  /\ LET lk == [linked EXCEPT ![idx[t]] = FALSE] IN
     /\ linked' = lk /\ head' = AdvanceHead(lk, head)
  /\ IF ringWait # {} THEN \E w \in ringWait : ringWait' = ringWait \ {w} /\ pc' = [pc EXCEPT ![t] = "clear", ![w] = "link"]
     ELSE ringWait' = ringWait /\ pc' = [pc EXCEPT ![t] = "clear"]
  /\ UNCHANGED <<idx, tail, val, asleep, mutex, doing, taken, scan, coreLog, result>>

Clear(t) == /\ pc[t] = "clear" /\ mutex = 0
            /\ doing' = FALSE
            /\ pc' = [pc EXCEPT ![t] = "notify_head"]
            /\ UNCHANGED <<idx, head, tail, linked, val, asleep, ringWait, mutex, taken, scan, coreLog, result>>

NotifyHead(t) ==
  /\ pc[t] \in {"notify_head", "out_notify"}
  /\ IF "NoNotifyHead" \in Dev \/ head >= tail
     THEN asleep' = asleep /\ pc' = [pc EXCEPT ![t] = IF pc[t] = "out_notify" THEN "out_release" ELSE "done"]
     ELSE /\ asleep' = Wake(head, asleep)
          /\ pc' = [PcAfterWake(pc, head) EXCEPT ![t] = IF pc[t] = "out_notify" THEN "out_release" ELSE "done"]
  /\ UNCHANGED <<idx, head, tail, linked, val, ringWait, mutex, doing, taken, scan, coreLog, result>>

\* a waiter that found its output: unlink, notify_head, then the mutex guard is dropped
OutUnlink(t) ==
  /\ pc[t] = "out_unlink"
  /\ LET lk == [linked EXCEPT ![idx[t]] = FALSE] IN
     /\ linked' = lk /\ head' = AdvanceHead(lk, head)
  /\ IF ringWait # {} THEN \E w \in ringWait : ringWait' = ringWait \ {w} /\ pc' = [pc EXCEPT ![t] = "out_notify", ![w] = "link"]
     ELSE ringWait' = ringWait /\ pc' = [pc EXCEPT ![t] = "out_notify"]
  /\ UNCHANGED <<idx, tail, val, asleep, mutex, doing, taken, scan, coreLog, result>>

OutRelease(t) == /\ pc[t] = "out_release" /\ mutex = t
                 /\ mutex' = 0 /\ pc' = [pc EXCEPT ![t] = "done"]
                 /\ UNCHANGED <<idx, head, tail, linked, val, asleep, ringWait, doing, taken, scan, coreLog, result>>

SpuriousWake(t) == /\ Spurious /\ pc[t] = "asleep"
                   /\ asleep' = asleep \ {idx[t]} /\ pc' = [pc EXCEPT ![t] = "relock"]
                   /\ UNCHANGED <<idx, head, tail, linked, val, ringWait, mutex, doing, taken, scan, coreLog, result>>

Step(t) == Link(t) \/ Lock(t) \/ Check(t) \/ Steal(t) \/ Work(t) \/ Store(t) \/ SelfUnlink(t) \/ Clear(t)
           \/ NotifyHead(t) \/ OutUnlink(t) \/ OutRelease(t) \/ SpuriousWake(t)
AllDone == \A t \in Threads : pc[t] = "done"
Next == (\E t \in Threads : Step(t)) \/ (AllDone /\ UNCHANGED vars)
Spec == Init /\ [][Next]_vars /\ \A t \in Threads : WF_vars(Step(t))

(* -------------------------------- properties ------------------------------ *)
Flat(log) == IF log = <<>> THEN <<>> ELSE LET F[i \in 0..Len(log)] == IF i = 0 THEN <<>> ELSE F[i - 1] \o log[i] IN F[Len(log)]
\* the core sees each input at most once, ever; exactly once when everybody is done
AtMostOnce == LET f == Flat(coreLog) IN \A i, j \in 1..Len(f) : i # j => f[i] # f[j]
ExactlyOnceAtEnd == AllDone => {Flat(coreLog)[i] : i \in 1..Len(Flat(coreLog))} = Threads
\* inputs are processed in the order the calls entered the queue (their wait-list index)
InLinkOrder == LET f == Flat(coreLog) IN \A i, j \in 1..Len(f) : i < j => idx[f[i]] < idx[f[j]]
\* every call returns the output produced for its own input
OwnResult == \A t \in Threads : result[t] # 0 => result[t] = t
\* exactly one head among linked waiters: the head slot is linked unless the list is empty
OneHead == head = tail \/ linked[head]
NoUnlinkedBeforeHead == \A i \in Idx : (i < head) => ~linked[i]
\* the mutex holder is where it should be
MutexSane == mutex # 0 => pc[mutex] \in {"check", "steal", "out_unlink", "out_notify", "out_release"}
\* no call blocks forever: checked as TLC deadlock freedom (without spurious wake-ups) and as liveness
EveryCallReturns == <>AllDone
=============================================================================
