------------------------------- MODULE MC_Wire -------------------------------
(* Wire.tla over data: messages (IOEnv.VALUES, one per line: [id, fields]) and varint cases (IOEnv.VARINTS:  *)
(* [bytes] to read, or [bits] of a value to spell and read back); prints what the implementation must       *)
(* produce / read.  Everything here is constant level and is evaluated once, in ASSUMEs: handing TLC's      *)
(* evaluator the same nested operators with state-level arguments ended in endless recursion.               *)
EXTENDS Wire, Json, IOUtils
Values == ndJsonDeserialize(IOEnv.VALUES)
Varints == ndJsonDeserialize(IOEnv.VARINTS)
\* per top-level field: its encoding and the two over-long spellings (the driver assembles messages from the parts)
\* a varint case is either a byte pattern to read, or a value whose canonical spelling (and an over-long one) is read
Pattern(c) == IF "bytes" \in DOMAIN c THEN c.bytes ELSE Varint(c.bits)
EmitVar(c) ==
  /\ PrintT(<<"WIRE", ToJson([varint |-> Pattern(c), dec |-> DecVarint(Pattern(c))])>>)
  /\ ("bits" \in DOMAIN c => PrintT(<<"WIRE", ToJson([varint |-> Overlong(Pattern(c)), dec |-> DecVarint(Overlong(Pattern(c)))])>>))
ASSUME \A n \in 1..Len(Varints) : EmitVar(Varints[n])
VarintLaws == \A n \in 1..Len(Varints) : "bits" \in DOMAIN Varints[n] =>
  /\ VarintRoundTrip(Varints[n].bits) /\ VarintShortest(Varints[n].bits) /\ OverlongSameValue(Varints[n].bits)
ASSUME VarintLaws
VARIABLE x
Spec == x = 0 /\ [][UNCHANGED x]_x
=============================================================================
