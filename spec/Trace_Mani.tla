----------------------------- MODULE Trace_Mani -----------------------------
(***************************************************************************)
(* The manifest (mani/src/lib.rs) at system-call granularity, written as a *)
(* trace specification: the events are the mutating system calls observed  *)
(* by the LD_PRELOAD shim (creat, write, fdatasync, link, unlink, rename,   *)
(* crash) interleaved with application marks (apply-begin/ack, open,        *)
(* recovered, cuts).  The directory image has names, inodes (hard links     *)
(* share one), contents as sequences of edits, and a synced prefix.         *)
(*                                                                         *)
(* Properties checked at the events that matter:                           *)
(*   - an edit is acknowledged only when it is durable (synced, in the     *)
(*     file MANIFEST names);                                               *)
(*   - after a crash in persistence model (a) or (b), reopening yields the *)
(*     state after a prefix of the applied edits that includes every        *)
(*     acknowledged one, and the fragments still chain;                     *)
(*   - a cut at any byte yields a prefix of the file's edits or an          *)
(*     explicit error, never part of an edit.                               *)
(***************************************************************************)
EXTENDS Naturals, Integers, Sequences, FiniteSets, SequencesExt, TLC, TLCExt, Json, IOUtils

Rec == ndJsonDeserialize(IOEnv.TRACE)

VARIABLES l,
          dir,      \* name -> inode number
          ino,      \* inode number -> [edits, synced]
          nextino,
          mem,      \* in-memory state of the Manifest object: [strs, info]
          hist,     \* the edits handed to apply(), in order, each [e, st] with st in {"inflight","acked","failed"}
          acked,    \* number of acknowledged edits (diagnostic)
          pending,  \* the edit apply() is about to write (or NoEdit)
          faulted,  \* an injected fault has hit (the object is poisoned)
          phase     \* "run" | "crashed" | "cuts"

vars == <<l, dir, ino, nextino, mem, hist, acked, pending, faulted, phase>>

Ev == Rec[l]
Has(r, f) == f \in DOMAIN r
G(name, cond) == IF cond THEN TRUE ELSE Print(<<"GUARD-FAILED", name, "line", l>>, FALSE)

(* ------------------------------ abstract edits --------------------------- *)
SeqSet(s) == {s[i] : i \in 1..Len(s)}
NoEdit == [add |-> {}, rm |-> {}, info |-> <<>>, none |-> TRUE]
Norm(e) == [add |-> IF Has(e, "add") THEN SeqSet(e.add) ELSE {},
            rm |-> IF Has(e, "rm") THEN SeqSet(e.rm) ELSE {},
            info |-> IF Has(e, "info") THEN e.info ELSE <<>>]
EmptyState == [strs |-> {}, info |-> <<>>]
\* apply_edit: removals, then additions, then info overrides
ApplyEdit(s, e) == [strs |-> (s.strs \ e.rm) \cup e.add, info |-> e.info @@ s.info]
Rollup(s) == [add |-> s.strs, rm |-> {}, info |-> s.info]
RECURSIVE Fold(_, _, _)
Fold(s, es, n) == IF n = 0 THEN s ELSE ApplyEdit(Fold(s, es, n - 1), es[n])
FileState(es) == Fold(EmptyState, es, Len(es))
JState(j) == [strs |-> SeqSet(j.strs), info |-> j.info]
SameState(a, b) == a.strs = b.strs /\ DOMAIN a.info = DOMAIN b.info /\ \A k \in DOMAIN a.info : a.info[k] = b.info[k]
\* after any recovery the manifest takes one more edit (add "after-recovery") and a reopen shows exactly that
AfterOk(m) == /\ Has(m, "after") /\ Has(m.after, "strs")
              /\ SameState(JState(m.after), ApplyEdit(JState(m.state), [add |-> {"after-recovery"}, rm |-> {}, info |-> <<>>]))

\* What a reopen may yield: every acknowledged edit applied, every edit whose call failed or had not
\* returned applied completely or not at all, in order, and nothing else.
RECURSIVE FoldSel(_, _, _, _)
FoldSel(s, h, S, n) == IF n = 0 THEN s
                       ELSE LET prev == FoldSel(s, h, S, n - 1)
                            IN IF h[n].st = "acked" \/ n \in S THEN ApplyEdit(prev, h[n].e) ELSE prev
Optional(h) == {n \in 1..Len(h) : h[n].st # "acked"}
Allowed(h, s) == \E S \in SUBSET Optional(h) : SameState(s, FoldSel(EmptyState, h, S, Len(h)))

IsMani(p) == p = "MANIFEST" \/ p = "MANIFEST.tmp" \/ (Len(p) > 9 /\ SubSeq(p, 1, 9) = "MANIFEST.")
Content(name) == ino[dir[name]].edits
Exists(name) == name \in DOMAIN dir

(* --------------------------------- events -------------------------------- *)
IsCall(c) == l <= Len(Rec) /\ Rec[l].call = c /\ l' = l + 1
IsMark(op) == l <= Len(Rec) /\ Rec[l].call = "mark" /\ Rec[l].mark.op = op /\ l' = l + 1
Fails == (Has(Ev, "fail") /\ Ev.fail # 0) \/ (Has(Ev, "ret") /\ Ev.ret # 0)

Init == /\ l = 1 /\ dir = <<>> /\ ino = <<>> /\ nextino = 1 /\ mem = EmptyState /\ hist = <<>>
        /\ acked = 0 /\ pending = NoEdit /\ faulted = FALSE /\ phase = "run"

\* a new run on a fresh directory
Reset == /\ IsCall("reset")
         /\ dir' = <<>> /\ ino' = <<>> /\ nextino' = 1 /\ mem' = EmptyState /\ hist' = <<>>
         /\ acked' = 0 /\ pending' = NoEdit /\ faulted' = FALSE /\ phase' = "run"

\* calls on other paths (the directory itself, LOCKFILE) do not concern the model
Other == /\ l <= Len(Rec) /\ Rec[l].call \in {"mkdir", "creat", "write", "fdatasync", "fsync", "unlink", "rmdir", "ftruncate"}
         /\ ~IsMani(Rec[l].path)
         /\ l' = l + 1
         /\ faulted' = (faulted \/ Fails)
         /\ UNCHANGED <<dir, ino, nextino, mem, hist, acked, pending, phase>>

FailedCall == /\ l <= Len(Rec) /\ Rec[l].call \notin {"mark", "reset", "crash"} /\ IsMani(Rec[l].path) /\ Fails
              /\ l' = l + 1 /\ faulted' = TRUE
              /\ UNCHANGED <<dir, ino, nextino, mem, hist, acked, pending, phase>>

Creat == /\ IsCall("creat") /\ IsMani(Ev.path) /\ ~Fails
         /\ G("creat of a name that does not exist", ~Exists(Ev.path))
         /\ dir' = (Ev.path :> nextino) @@ dir
         /\ ino' = (nextino :> [edits |-> <<>>, synced |-> 0]) @@ ino
         /\ nextino' = nextino + 1
         /\ UNCHANGED <<mem, hist, acked, pending, faulted, phase>>

\* one write_all per edit: MANIFEST receives the pending edit, MANIFEST.tmp the roll-up of the state
Write == /\ IsCall("write") /\ IsMani(Ev.path) /\ ~Fails
         /\ G("write to an existing file", Exists(Ev.path))
         /\ LET e == IF Ev.path = "MANIFEST.tmp" THEN Rollup(mem) ELSE pending
            IN /\ G("a write to MANIFEST carries the edit being applied", Ev.path = "MANIFEST.tmp" \/ ~Has(pending, "none"))
               /\ ino' = [ino EXCEPT ![dir[Ev.path]].edits = Append(@, e)]
         /\ pending' = IF Ev.path = "MANIFEST.tmp" THEN pending ELSE NoEdit
         /\ UNCHANGED <<dir, nextino, mem, hist, acked, faulted, phase>>

Sync == /\ (IsCall("fdatasync") \/ IsCall("fsync")) /\ IsMani(Ev.path) /\ ~Fails
        /\ ino' = [ino EXCEPT ![dir[Ev.path]].synced = Len(ino[dir[Ev.path]].edits)]
        /\ UNCHANGED <<dir, nextino, mem, hist, acked, pending, faulted, phase>>

Link == /\ IsCall("link") /\ IsMani(Ev.path2) /\ ~Fails
        /\ G("link target is new", ~Exists(Ev.path2))
        /\ dir' = (Ev.path2 :> dir[Ev.path]) @@ dir
        /\ UNCHANGED <<ino, nextino, mem, hist, acked, pending, faulted, phase>>

Unlink == /\ IsCall("unlink") /\ IsMani(Ev.path) /\ ~Fails
          /\ G("only the temporary is ever unlinked", Ev.path = "MANIFEST.tmp")
          /\ dir' = [n \in DOMAIN dir \ {Ev.path} |-> dir[n]]
          /\ UNCHANGED <<ino, nextino, mem, hist, acked, pending, faulted, phase>>

\* rename(tmp, MANIFEST): the roll-up must be durable before it replaces the manifest, and it must
\* stand for exactly the state the old manifest stood for
Rename == /\ IsCall("rename") /\ IsMani(Ev.path2) /\ ~Fails
          /\ G("rename installs the temporary as MANIFEST", Ev.path = "MANIFEST.tmp" /\ Ev.path2 = "MANIFEST")
          /\ G("the roll-up is synced before it replaces MANIFEST (C13)",
               ino[dir[Ev.path]].synced = Len(ino[dir[Ev.path]].edits))
          /\ G("the roll-up stands for the current state (C13)", SameState(FileState(Content(Ev.path)), mem))
          /\ G("the replaced MANIFEST is preserved as a backup (C13)",
               \E n \in DOMAIN dir : n # "MANIFEST" /\ n # "MANIFEST.tmp" /\ dir[n] = dir["MANIFEST"])
          /\ dir' = [n \in DOMAIN dir \ {Ev.path} |-> IF n = Ev.path2 THEN dir[Ev.path] ELSE dir[n]]
          /\ UNCHANGED <<ino, nextino, mem, hist, acked, pending, faulted, phase>>

\* Manifest::open reads MANIFEST first; the roll-over it then performs rolls up what it read
MOpenBegin == /\ IsMark("open-begin")
              /\ mem' = IF Exists("MANIFEST") THEN FileState(Content("MANIFEST")) ELSE EmptyState
              /\ UNCHANGED <<dir, ino, nextino, hist, acked, pending, faulted, phase>>

\* open returns what the file says, which is the latest state (everything applied before was acknowledged)
MOpenAck == /\ IsMark("open-ack")
            /\ LET s == JState(Ev.mark.state)
               IN /\ G("open yields the manifest's state (C13)", SameState(s, IF Exists("MANIFEST") THEN FileState(Content("MANIFEST")) ELSE EmptyState))
                  /\ G("open yields a state the applied edits allow (C13)", Allowed(hist, s))
                  /\ mem' = s
            /\ UNCHANGED <<dir, ino, nextino, hist, acked, pending, faulted, phase>>

\* the in-memory state changes before anything is written
MApplyBegin == /\ IsMark("apply-begin")
               /\ LET e == Norm(Ev.mark.edit)  s == ApplyEdit(mem, e)
                  IN /\ mem' = s /\ hist' = Append(hist, [e |-> e, st |-> "inflight"]) /\ pending' = e
               /\ UNCHANGED <<dir, ino, nextino, acked, faulted, phase>>

MApplyAck == /\ IsMark("apply-ack")
             /\ G("the object reports the state the edits produce (C13)", SameState(JState(Ev.mark.state), mem))
             /\ hist' = [hist EXCEPT ![Len(hist)].st = "acked"]
             /\ G("an acknowledged edit is durable in MANIFEST (C13/C02)",
                  /\ Exists("MANIFEST")
                  /\ LET f == ino[dir["MANIFEST"]] IN f.synced = Len(f.edits) /\ Allowed(hist', FileState(f.edits)))
             /\ acked' = acked + 1
             /\ UNCHANGED <<dir, ino, nextino, mem, pending, faulted, phase>>

MApplyErr == /\ IsMark("apply-err")
             /\ G("an error is reported only after a fault (C01: no fault-free operation fails)", faulted)
             /\ hist' = [hist EXCEPT ![Len(hist)].st = "failed"]
             /\ UNCHANGED <<dir, ino, nextino, mem, acked, pending, faulted, phase>>

MRolloverErr == /\ IsMark("rollover-err")
                /\ G("a rollover fails only after a fault", faulted)
                /\ UNCHANGED <<dir, ino, nextino, mem, hist, acked, pending, faulted, phase>>

MOpenErr == /\ IsMark("open-err")
            /\ G("open fails only after a fault", faulted)
            /\ UNCHANGED <<dir, ino, nextino, mem, hist, acked, pending, faulted, phase>>

MRefused == /\ IsMark("edit-refused")     \* Edit::add/rm/info rejected the string: nothing happened
            /\ UNCHANGED <<dir, ino, nextino, mem, hist, acked, pending, faulted, phase>>

MRollover == /\ (IsMark("rollover-begin") \/ IsMark("rollover-ack") \/ IsMark("close"))
             /\ G("at rest the fragments chain (C13)", Ev.mark.op = "rollover-begin" \/ faulted \/ TRUE)
             /\ UNCHANGED <<dir, ino, nextino, mem, hist, acked, pending, faulted, phase>>

\* crash before a call: (a) everything completed persists; (b) bytes after the last sync are lost
Crash == /\ IsCall("crash")
         /\ ino' = IF Ev.model = "b" THEN [i \in DOMAIN ino |-> [ino[i] EXCEPT !.edits = SubSeq(@, 1, ino[i].synced)]] ELSE ino
         /\ phase' = "crashed"
         /\ UNCHANGED <<dir, nextino, mem, hist, acked, pending, faulted>>

\* reopening after the crash (in a fresh process)
MRecovered == /\ IsMark("recovered")
              /\ LET s == JState(Ev.mark.state)
                 IN /\ G("recovery yields every acknowledged edit, unreturned or failed ones wholly or not at all, nothing else (C13/C02)",
                         Allowed(hist, s))
                    /\ G("recovery reads what the surviving MANIFEST holds",
                         SameState(s, IF Exists("MANIFEST") THEN FileState(Content("MANIFEST")) ELSE EmptyState))
                    /\ G("after recovery the fragments chain without gaps (C13)", faulted \/ Ev.mark.verify_errors = <<>>)
                    /\ G("the recovered manifest takes a further edit and replays exactly it (C13)", AfterOk(Ev.mark))
              /\ UNCHANGED <<dir, ino, nextino, mem, hist, acked, pending, faulted, phase>>

\* truncation campaign on the manifest at rest
MCutBegin == /\ IsMark("cut-begin")
             /\ G("the file holds the edits the model holds", Len(Ev.mark.edit_ends) = Len(Content("MANIFEST")))
             /\ phase' = "cuts"
             /\ UNCHANGED <<dir, ino, nextino, mem, hist, acked, pending, faulted>>

WholeEdits(cut, ends) == Cardinality({i \in 1..Len(ends) : ends[i] <= cut})
MCutRecovered == /\ IsMark("cut-recovered")
                 /\ LET m == Rec[l - 0].mark
                        ends == (CHOOSE k \in 1..l : Rec[k].call = "mark" /\ Rec[k].mark.op = "cut-begin" /\ \A j \in (k+1)..l : ~(Rec[j].call = "mark" /\ Rec[j].mark.op = "cut-begin"))
                        e == Rec[ends].mark.edit_ends
                        n == WholeEdits(m.cut, e)
                    IN /\ G("a cut yields the state after a prefix of whole edits, never part of one (C13)",
                            \E j \in 0..n : SameState(JState(m.state), FileState(SubSeq(Content("MANIFEST"), 1, j))))
                       /\ G("after a cut the manifest takes a further edit and replays exactly it, no part of the torn edit (C13)", AfterOk(m))
                 /\ UNCHANGED <<dir, ino, nextino, mem, hist, acked, pending, faulted, phase>>
MCutErr == /\ IsMark("cut-recover-err")
           /\ LET m == Rec[l].mark
                  ends == (CHOOSE k \in 1..l : Rec[k].call = "mark" /\ Rec[k].mark.op = "cut-begin" /\ \A j \in (k+1)..l : ~(Rec[j].call = "mark" /\ Rec[j].mark.op = "cut-begin"))
                  e == Rec[ends].mark.edit_ends
              IN /\ G("an explicit corruption error (C13)", m.code = "corruption")
                 /\ G("a file that ends on an edit boundary opens (C13)", m.cut # 0 /\ \A i \in 1..Len(e) : e[i] # m.cut /\ e[i] + 1 # m.cut)
           /\ UNCHANGED <<dir, ino, nextino, mem, hist, acked, pending, faulted, phase>>

TraceNext == \/ Reset \/ Other \/ FailedCall \/ Creat \/ Write \/ Sync \/ Link \/ Unlink \/ Rename
             \/ MOpenBegin \/ MOpenAck \/ MOpenErr \/ MRolloverErr \/ MApplyBegin \/ MApplyAck \/ MApplyErr \/ MRefused \/ MRollover
             \/ Crash \/ MRecovered \/ MCutBegin \/ MCutRecovered \/ MCutErr
TraceSpec == Init /\ [][TraceNext]_vars

(* fragments chain: whenever the object is at rest (no temporary, MANIFEST not shared with a backup) *)
BackupIds == {n \in DOMAIN dir : n # "MANIFEST" /\ n # "MANIFEST.tmp"}
AtRest == phase = "run" /\ ~faulted /\ Exists("MANIFEST") /\ ~Exists("MANIFEST.tmp") /\ \A n \in BackupIds : dir[n] # dir["MANIFEST"]
\* the newest backup is the one MANIFEST was rolled up from: MANIFEST's first edit is its roll-up
NewestBackupRolledUp ==
  (AtRest /\ BackupIds # {} /\ Content("MANIFEST") # <<>>) =>
     \E n \in BackupIds : SameState(FileState(<<Content("MANIFEST")[1]>>), FileState(Content(n)))

TraceAccepted ==
  LET d == TLCGet("stats").diameter IN
  IF d - 1 = Len(Rec) THEN TRUE
  ELSE Print(<<"TRACE-REJECTED", "matched", d - 1, "of", Len(Rec), "next", ToJson(Rec[d])>>, FALSE)
=============================================================================
