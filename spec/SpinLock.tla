------------------------------ MODULE SpinLock ------------------------------
(* sync42::spin_lock::SpinLock (sync42/src/spin_lock.rs): a FIFO ticket lock.  One action per atomic access:
     Take(t)    lock():  index = acquires.fetch_add(1)
     Enter(t)   lock():  the load of `releases` that ends the spin loop (index > releases keeps spinning: a
                         failed load changes nothing and is a stuttering step)
     Release(t) drop of the guard: releases.store(index + 1)
   Not one of the twenty listed properties; run by bin/extras.  TLC explores sequentially consistent
   interleavings only: the Relaxed/Acquire/Release orderings the code relies on are outside this family
   (DESIGN.md section 6).
   Dev is a set of named deviations used as negative controls:
     "OffByOne"   the spin loop exits one ticket early (index > releases + 1 keeps spinning) *)
EXTENDS Naturals, FiniteSets

CONSTANTS Threads, MaxOps, Dev

VARIABLES acquires, releases, pc, idx, ops, order

vars == <<acquires, releases, pc, idx, ops, order>>

Init == /\ acquires = 0
        /\ releases = 0
        /\ pc = [t \in Threads |-> "idle"]
        /\ idx = [t \in Threads |-> 0]
        /\ ops = [t \in Threads |-> 0]
        /\ order = 0            \* ticket of the most recent thread to enter, plus one (history)

Take(t) == /\ pc[t] = "idle"
           /\ ops[t] < MaxOps
           /\ idx' = [idx EXCEPT ![t] = acquires]
           /\ acquires' = acquires + 1
           /\ pc' = [pc EXCEPT ![t] = "spin"]
           /\ ops' = [ops EXCEPT ![t] = @ + 1]
           /\ UNCHANGED <<releases, order>>

MayEnter(t) == IF "OffByOne" \in Dev THEN ~(idx[t] > releases + 1) ELSE ~(idx[t] > releases)

Enter(t) == /\ pc[t] = "spin"
            /\ MayEnter(t)
            /\ pc' = [pc EXCEPT ![t] = "cs"]
            /\ order' = idx[t] + 1
            /\ UNCHANGED <<acquires, releases, idx, ops>>

Release(t) == /\ pc[t] = "cs"
              /\ releases' = idx[t] + 1
              /\ pc' = [pc EXCEPT ![t] = "idle"]
              /\ UNCHANGED <<acquires, idx, ops, order>>

Next == \E t \in Threads : Take(t) \/ Enter(t) \/ Release(t)

Spec == Init /\ [][Next]_vars /\ \A t \in Threads : WF_vars(Enter(t)) /\ WF_vars(Release(t))

InCs == {t \in Threads : pc[t] = "cs"}

Mutex == Cardinality(InCs) <= 1

\* the holder is the thread whose ticket equals `releases`; tickets in flight are distinct and below `acquires`
TicketInv == /\ \A t \in InCs : idx[t] = releases
             /\ \A t, u \in Threads : (pc[t] # "idle" /\ pc[u] # "idle" /\ t # u) => idx[t] # idx[u]
             /\ \A t \in Threads : pc[t] # "idle" => (idx[t] < acquires /\ idx[t] >= releases)
             /\ releases <= acquires

\* FIFO: threads enter exactly in ticket order, none skipped (action property)
Fifo == [][\A t \in Threads : Enter(t) => idx[t] = order]_vars

\* liveness: whoever took a ticket gets in
Progress == \A t \in Threads : (pc[t] = "spin") ~> (pc[t] = "cs")
=============================================================================
