----------------------------- MODULE Trace_Tree -----------------------------
(* Trace validation of sequential KeyValueStore / LsmTree histories recorded by `vh store-run`.   *)
(* Every event carries the projected abstract state (levels, entries of new files, reads);        *)
(* each action checks the property-level guards for that kind of step and the invariants are      *)
(* evaluated in every state the real execution induced.                                            *)
EXTENDS Tree, Json, IOUtils, TLCExt

Rec == ndJsonDeserialize(IOEnv.TRACE)

VARIABLES l,        \* next trace line
          keys,     \* key space of this run
          mem, levels, files,
          all,      \* every entry ever written (the history)
          gcd,      \* entries discarded by garbage collection
          lastKind, \* kind of the last consumed event (for coverage / diagnostics)
          devUsed,  \* named deviations (known findings, constant Dev) this run has exercised
          acct      \* setsum accounting (C04): [listed |-> ids the manifest lists, O |-> its output setsum, cols |-> id -> columns]

vars == <<l, keys, mem, levels, files, all, gcd, lastKind, devUsed, acct>>

SS == INSTANCE Setsum WITH Dev <- {}

E(t) == [k |-> t[1], ts |-> t[2], v |-> t[3]]
ESet(s) == {E(s[i]) : i \in 1..Len(s)}
B(b) == [kind |-> b[1], k |-> b[2]]

RECURSIVE AddFiles(_, _, _)
AddFiles(f, nf, i) == IF i > Len(nf) THEN f ELSE AddFiles((nf[i].id :> ESet(nf[i].entries)) @@ f, nf, i + 1)

Ev == Rec[l]
\* a named guard: when it is false the name and trace line are printed (the action is then disabled)
G(name, cond) == IF cond THEN TRUE ELSE Print(<<"GUARD-FAILED", name, "line", l>>, FALSE)
IsEvent(kind) == l <= Len(Rec) /\ Rec[l].ev = kind /\ l' = l + 1 /\ lastKind' = kind
NoErr == ~("err" \in DOMAIN Ev)

\* reads logged with the event agree with the property (ideal), evaluated on the successor state
GetCode(c) == IF c <= 0 THEN 0 ELSE c
(* ----------------------- C04: one setsum covers all data ------------------------ *)
CP(p) == [h |-> p[1], l |-> p[2]]
Cols(c) == [i \in 1..8 |-> CP(c[i])]
RECURSIVE SumSeq(_, _)
SumSeq(sq, n) == IF n = 0 THEN SS!ZeroState ELSE SS!AddState(SumSeq(sq, n - 1), sq[n])
SumIds(S, cols) == LET q == SetToSeq(S) IN SumSeq([i \in 1..Len(q) |-> cols[q[i]]], Len(q))
\* every new file's recorded setsum is the sum of the setsums of the entries stored in it
FilesBalance(nf) == \A i \in 1..Len(nf) :
  ("cols" \in DOMAIN nf[i]) =>
     /\ Len(nf[i].ehash) = Len(nf[i].entries)
     /\ Cols(nf[i].cols) = SumSeq([j \in 1..Len(nf[i].ehash) |-> Cols(nf[i].ehash[j])], Len(nf[i].ehash))
RECURSIVE AddCols(_, _, _)
AddCols(c, nf, i) == IF i > Len(nf) THEN c ELSE AddCols(IF "cols" \in DOMAIN nf[i] THEN (nf[i].id :> Cols(nf[i].cols)) @@ c ELSE c, nf, i + 1)
\* fold the manifest transactions of this event: each starts from the previous output, balances
\* input = output + discard, discards exactly removed minus added, and its output is the sum of the
\* files listed afterwards; the first edit of a fragment restates the complete state
RECURSIVE Txns(_, _, _, _)
Txns(a, tx, i, cols) ==
  IF i > Len(tx) THEN a
  ELSE LET t == tx[i]
           add == {t.added[j] : j \in 1..Len(t.added)}
           rm == {t.rmed[j] : j \in 1..Len(t.rmed)}
           O == Cols(t.O)  I == Cols(t.I)  D == Cols(t.D)
       IN IF t.first
          THEN IF /\ G("a manifest fragment starts with the complete state (C04/C13)", add = a.listed /\ rm = {})
                  /\ G("a manifest fragment continues from the previous output setsum (C04)", O = a.O)
               THEN Txns([a EXCEPT !.listed = add], tx, i + 1, cols) ELSE [a EXCEPT !.listed = {"REJECTED"}]
          ELSE LET listed2 == (a.listed \ rm) \cup add IN
               IF /\ G("a transaction starts from the previous transaction's output (C04)", I = a.O)
                  /\ G("input = output + discard (C04)", I = SS!AddState(O, D))
                  /\ G("discard = removed - added (C04)", D = SS!SubState(SumIds(rm, cols), SumIds(add, cols)))
                  /\ G("recorded output = sum of the setsums of the listed SSTs (C04)", O = SumIds(listed2, cols))
               THEN Txns([a EXCEPT !.listed = listed2, !.O = O], tx, i + 1, cols) ELSE [a EXCEPT !.listed = {"REJECTED"}]
\* the accounting step of an event that may carry manifest transactions (acct also carries the
\* scan cursors held open, which every step but hold/step/drop/reopen leaves alone)
Acct(ev) ==
  IF "txns" \in DOMAIN ev
  THEN LET cols == AddCols(acct.cols, ev.newfiles, 1)
           a2 == Txns([acct EXCEPT !.cols = cols], ev.txns, 1, cols)
       IN /\ G("each SST's setsum = sum over its stored entries (C04)", FilesBalance(ev.newfiles))
          /\ a2.listed # {"REJECTED"}
          /\ G("the manifest lists exactly the SSTs of the tree (C04)", a2.listed = Ids(levels'))
          /\ acct' = a2
  ELSE acct' = acct

\* While no deviation has been exercised, reads must equal the property (the latest write).  Once a
\* listed deviation has fired, the tree's level order is known to be off (a level holds overlapping files, which
\* the code's binary searches and concatenating cursors are not designed for).  Reads are then compared with the
\* transcription of Version::load / range_scan on the logged levels for information only (MECH-MISMATCH lines):
\* demanding equality with a transcription outside the states the design intends turned out to be a false alarm
\* of this specification (thorough tier of C04).  The structural guards (nothing lost, nothing invented, setsum
\* accounting, discards safe) stay in force.
Info(name, cond) == IF cond THEN TRUE ELSE Print(<<"MECH-MISMATCH", name, "line", l>>, TRUE)
ReadsOk(ev, all2, ks) ==
  IF devUsed' = {}
  THEN /\ G("get = latest write (C01)", \A k \in ks : GetCode(ev.gets[k]) = Visible(Newest(all2, k, MAXTS)))
       /\ G("forward scan = live keys (C03)", [i \in 1..Len(ev.scan) |-> E(ev.scan[i])] = IdealScan(all2, Unb, Unb, MAXTS))
       /\ G("backward scan = live keys reversed (C03)", [i \in 1..Len(ev.rscan) |-> E(ev.rscan[i])] = Reverse(IdealScan(all2, Unb, Unb, MAXTS)))
  ELSE /\ Info("get = what the logged levels hold (mechanism, after a known deviation)",
            \A k \in ks : GetCode(ev.gets[k]) = Visible(MechLoad(mem', levels', files', k, MAXTS)))

TraceInit == /\ l = 1 /\ keys = {} /\ mem = {} /\ levels = <<>> /\ files = <<>> /\ all = {} /\ gcd = {} /\ lastKind = "none" /\ devUsed = {}
             /\ acct = [listed |-> {}, O |-> SS!ZeroState, cols |-> <<>>, held |-> <<>>]

\* "open" starts a new run: fresh database
Open == /\ IsEvent("open") /\ NoErr
        /\ keys' = 1..Ev.nkeys
        /\ mem' = {} /\ all' = {} /\ gcd' = {} /\ devUsed' = {}
        /\ files' = AddFiles(<<>>, Ev.newfiles, 1)
        /\ levels' = Ev.levels
        /\ Ids(levels') = {}
        /\ IF "txns" \in DOMAIN Ev
           THEN LET a2 == Txns([listed |-> {}, O |-> SS!ZeroState, cols |-> <<>>, held |-> <<>>], Ev.txns, 1, <<>>)
                IN a2.listed # {"REJECTED"} /\ acct' = a2
           ELSE acct' = [listed |-> {}, O |-> SS!ZeroState, cols |-> <<>>, held |-> <<>>]
        /\ ReadsOk(Ev, {}, keys')

Write == /\ IsEvent("write") /\ NoErr
         /\ UNCHANGED <<keys, levels, files, gcd, devUsed>>
         /\ LET new == {[k |-> Ev.entries[i][1], ts |-> Ev.ts, v |-> Ev.entries[i][2]] : i \in 1..Len(Ev.entries)}
            IN /\ G("write timestamp above all earlier ones", \A e \in all : e.ts < Ev.ts)
               /\ mem' = mem \cup new
               /\ all' = all \cup new
               /\ G("write leaves the tree alone", Ev.levels = levels /\ Ev.newfiles = <<>>)
               /\ Acct(Ev)
               /\ ReadsOk(Ev, all', keys)

\* memtable flush: exactly one new file holding exactly the memtable
Flush == /\ IsEvent("flush") /\ NoErr
         /\ UNCHANGED <<keys, all, gcd, devUsed>>
         /\ Len(Ev.newfiles) = 1
         /\ files' = AddFiles(files, Ev.newfiles, 1)
         /\ levels' = Ev.levels
         /\ Ids(levels') = Ids(levels) \cup {Ev.newfiles[1].id}
         /\ G("flushed file = memtable (C05)", files'[Ev.newfiles[1].id] = mem)
         /\ mem' = {}
         /\ Acct(Ev)
         /\ ReadsOk(Ev, all, keys)

\* external ingest (LsmTree mode): one new file with the given entries; timestamps chosen by the driver
Ingest == /\ IsEvent("ingest") /\ NoErr
          /\ UNCHANGED <<keys, mem, gcd, devUsed>>
          /\ Len(Ev.newfiles) = 1
          /\ files' = AddFiles(files, Ev.newfiles, 1)
          /\ levels' = Ev.levels
          /\ Ids(levels') = Ids(levels) \cup {Ev.newfiles[1].id}
          /\ files'[Ev.newfiles[1].id] = ESet(Ev.entries)
          /\ all' = all \cup ESet(Ev.entries)
          /\ Acct(Ev)
          /\ ReadsOk(Ev, all', keys)

\* one compaction-thread iteration: trivial move, merge, or garbage collection (or nothing)
Compact == /\ IsEvent("compact") /\ NoErr
           /\ UNCHANGED <<keys, mem, all, devUsed>>
           /\ files' = AddFiles(files, Ev.newfiles, 1)
           /\ levels' = Ev.levels
           /\ LET removed == Ids(levels) \ Ids(levels')
                  added   == Ids(levels') \ Ids(levels)
                  inE  == UNION {files'[id] : id \in removed}
                  outE == UNION {files'[id] : id \in added}
                  disc == inE \ outE
              IN /\ G("compaction invents nothing (C05)", outE \subseteq inE)
                 /\ G("compaction outputs disjoint (C04)", \A a, b \in added : a # b => files'[a] \cap files'[b] = {})
                 /\ G("idle compaction step changes nothing", (~Ev.did) => levels' = levels)
                 /\ G("GC discards only what no read depends on (C05)", disc # {} => DiscardSafe(disc, all, gcd))
                 /\ gcd' = gcd \cup disc
                 \* C05: a compaction that discards nothing leaves every read at every timestamp unchanged
                 /\ G("non-GC compaction keeps reads at every timestamp (C05)",
                      (disc = {} /\ devUsed = {}) => \A k \in keys, t \in {e.ts : e \in all} :
                                    TreeLoad(levels', files', k, t, 1) = TreeLoad(levels, files, k, t, 1))
           /\ Acct(Ev)
           /\ ReadsOk(Ev, all, keys)

\* Another face of the open finding RecoverLevelsFromMetadata: once recover() has put overlapping files into one
\* level (the deviation fired earlier in this run and some level >= 1 still holds overlapping files), the tree's own
\* assertion that a level is sorted and disjoint can trip in a later compaction step.  The executor ends the run
\* there.  Admitted only in exactly that situation; any other failing step has no action and rejects the trace.
CompactTripsOnOverlap ==
  /\ IsEvent("compact") /\ "err" \in DOMAIN Ev
  /\ "errclass" \in DOMAIN Ev /\ Ev.errclass = "level-order-assert"
  /\ "RecoverLevelsFromMetadata" \in Dev /\ "RecoverLevelsFromMetadata" \in devUsed
  /\ ~LevelsDisjoint(levels, files)
  /\ PrintT(<<"DEV-USED", "RecoverLevelsFromMetadata", l>>)
  /\ UNCHANGED <<keys, mem, levels, files, all, gcd, devUsed, acct>>

\* clean close and reopen: the memtable comes back as an SST recovered from the log; levels are rebuilt.
\* Known finding "RecoverLevelsFromMetadata" (when listed in Dev): recover() cannot tell from key and
\* timestamp ranges alone which of two overlapping files was above the other and puts both into one
\* level.  The deviation is admitted only in exactly that shape: the logged levels are those the
\* transcription of recover() computes, and some level >= 1 holds overlapping files.
Reopen == /\ IsEvent("reopen") /\ NoErr
          /\ UNCHANGED <<keys, all, gcd>>
          /\ files' = AddFiles(files, Ev.newfiles, 1)
          /\ levels' = Ev.levels
          /\ IF mem = {} THEN Ids(levels') = Ids(levels)
             ELSE /\ Len(Ev.newfiles) = 1
                  /\ Ids(levels') = Ids(levels) \cup {Ev.newfiles[1].id}
                  /\ G("recovered file = memtable (C02)", files'[Ev.newfiles[1].id] = mem)
          /\ mem' = {}
          /\ LET rec == RecoverLevels(Ids(levels'), files', Len(levels'))
                 asCoded == \A i \in 1..Len(levels') : SeqToSet(levels'[i]) = SeqToSet(rec[i])
                 fires == "RecoverLevelsFromMetadata" \in Dev /\ ~LevelsDisjoint(levels', files') /\ asCoded
             IN devUsed' = IF fires THEN devUsed \cup {(PrintT(<<"DEV-USED", "RecoverLevelsFromMetadata", l>>) :> "RecoverLevelsFromMetadata")[TRUE]}
                           ELSE devUsed
          /\ IF "txns" \in DOMAIN Ev
             THEN LET cols == AddCols(acct.cols, Ev.newfiles, 1)
                      a2 == Txns([acct EXCEPT !.cols = cols], Ev.txns, 1, cols)
                  IN /\ G("each SST's setsum = sum over its stored entries (C04)", FilesBalance(Ev.newfiles))
                     /\ a2.listed # {"REJECTED"}
                     /\ G("the manifest lists exactly the SSTs of the tree (C04)", a2.listed = Ids(levels'))
                     /\ acct' = [a2 EXCEPT !.held = <<>>]
             ELSE acct' = [acct EXCEPT !.held = <<>>]
          /\ ReadsOk(Ev, all, keys)

\* offline verifier pass: accepts (or asks to back off); contents unchanged
Verify == /\ IsEvent("verify") /\ NoErr
          /\ UNCHANGED <<keys, mem, levels, files, all, gcd, devUsed>>
          /\ G("the verifier accepts what the store produced (C04)", Ev.verdict \in {"ok", "backoff"})
          /\ Ev.levels = levels /\ Ev.newfiles = <<>>
          /\ Acct(Ev)
          /\ ReadsOk(Ev, all, keys)

\* a scan program: every observation equals the ideal cursor's
ScanProg == /\ IsEvent("scanprog") /\ NoErr
            /\ UNCHANGED <<keys, mem, levels, files, all, gcd, devUsed, acct>>
            /\ LET ideal == IdealScan(all, B(Ev.lo), B(Ev.hi), MAXTS)
                   calls == [i \in 1..Len(Ev.calls) |-> Ev.calls[i]]
                   mech == RunOps(Build(ScanExpr(mem, levels, files, B(Ev.lo), B(Ev.hi), MAXTS)), calls, 1)
               IN IF devUsed = {}
                  THEN G("scan program = ideal cursor (C03)", [i \in 1..Len(Ev.obs) |-> E(Ev.obs[i])] = RunIdeal(ideal, 0, calls, 1))
                  ELSE Info("scan program = composed cursors on the logged levels (mechanism)", [i \in 1..Len(Ev.obs) |-> E(Ev.obs[i])] = mech)

\* C07: a scan cursor held open is a stable snapshot: whatever happens to the store afterwards, every
\* call on it shows what the ideal cursor over the live keys AT THE TIME IT WAS OPENED shows
Hold == /\ IsEvent("hold") /\ NoErr
        /\ UNCHANGED <<keys, mem, levels, files, all, gcd, devUsed>>
        /\ acct' = [acct EXCEPT !.held = (Ev.id :> [all |-> all, lo |-> B(Ev.lo), hi |-> B(Ev.hi), pos |-> 0]) @@ @]
HeldStep == /\ IsEvent("step") /\ NoErr
            /\ UNCHANGED <<keys, mem, levels, files, all, gcd, devUsed>>
            /\ LET hc == acct.held[Ev.id]
                   ideal == IdealScan(hc.all, hc.lo, hc.hi, MAXTS)
                   calls == [i \in 1..Len(Ev.calls) |-> Ev.calls[i]]
               IN /\ G("a held scan cursor keeps showing the contents at the time it was opened (C07)",
                       devUsed # {} \/ [i \in 1..Len(Ev.obs) |-> E(Ev.obs[i])] = RunIdeal(ideal, hc.pos, calls, 1))
                  /\ acct' = [acct EXCEPT !.held[Ev.id].pos = FinalPos(ideal, hc.pos, calls, 1)]
HeldDrop == /\ IsEvent("drop") /\ NoErr
            /\ UNCHANGED <<keys, mem, levels, files, all, gcd, devUsed>>
            /\ acct' = [acct EXCEPT !.held = [i \in DOMAIN acct.held \ {Ev.id} |-> acct.held[i]]]

\* the driver skipped an op that would block a single-threaded run (write stall): nothing changes
Skip == /\ IsEvent("skip") /\ NoErr
        /\ UNCHANGED <<keys, mem, levels, files, all, gcd, devUsed>>
        /\ Ev.levels = levels /\ Ev.newfiles = <<>>
        /\ Acct(Ev)
        /\ ReadsOk(Ev, all, keys)

TraceNext == Hold \/ HeldStep \/ HeldDrop \/ Skip \/ Open \/ Write \/ Flush \/ Ingest \/ Compact \/ CompactTripsOnOverlap \/ Reopen \/ Verify \/ ScanProg
TraceSpec == TraceInit /\ [][TraceNext]_vars

(* invariants evaluated in every state of the trace *)
InvReadLatest == levels = <<>> \/ devUsed # {} \/ ReadLatestAt(mem, levels, files, all, keys)
InvNoLoss     == levels = <<>> \/ NoLoss(mem, levels, files, all, gcd)
InvNoDup      == levels = <<>> \/ NoDuplicates(levels, files)
InvScan       == levels = <<>> \/ devUsed # {} \/ ScanMatchesIdeal(mem, levels, files, all)

\* acceptance: the whole trace was consumed
TraceAccepted ==
  LET d == TLCGet("stats").diameter IN
  IF d - 1 = Len(Rec) THEN TRUE
  ELSE Print(<<"TRACE-REJECTED", "matched", d - 1, "of", Len(Rec), "next", ToJson(Rec[d])>>, FALSE)
=============================================================================
