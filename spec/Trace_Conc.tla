----------------------------- MODULE Trace_Conc -----------------------------
(***************************************************************************)
(* Validation of free-running concurrent histories of KeyValueStore        *)
(* (C06; the `hang` verdict also serves C20).                              *)
(* Writers: group g owns keys (g, 1..gkeys) and writes the same counter i  *)
(* (increasing) to all of them in one batch; so per key the writes are     *)
(* totally ordered and linearizability of the register map reduces to:     *)
(*   a read of (g, j) that began after write i of g had returned, and      *)
(*   ended before write i' had begun, returns a value in i..i'-1 ... i.e.  *)
(*   done-at-begin <= v <= started-at-end.                                  *)
(* Batch atomicity: one snapshot (a scan) shows the same i for all keys of *)
(* a group.                                                                *)
(* Events carry a global stamp taken before the call and after the return. *)
(***************************************************************************)
EXTENDS Naturals, Integers, Sequences, FiniteSets, TLC, TLCExt, Json, IOUtils

CONSTANT Dev
Rec == ndJsonDeserialize(IOEnv.TRACE)
VARIABLES l, started, done, rbeg, sbeg, gkeys, devUsed
vars == <<l, started, done, rbeg, sbeg, gkeys, devUsed>>
Ev == Rec[l]
G(name, cond) == IF cond THEN TRUE ELSE Print(<<"GUARD-FAILED", name, "line", l>>, FALSE)
Is(e) == l <= Len(Rec) /\ Rec[l].ev = e /\ l' = l + 1

Init == l = 1 /\ started = <<>> /\ done = <<>> /\ rbeg = <<>> /\ sbeg = <<>> /\ gkeys = 0 /\ devUsed = {}
Start == /\ Is("start")
         /\ started' = [g \in 1..Ev.writers |-> 0] /\ done' = [g \in 1..Ev.writers |-> 0]
         /\ rbeg' = [r \in 1..Ev.readers |-> <<>>] /\ sbeg' = [s \in 1..Ev.scanners |-> <<>>]
         /\ gkeys' = Ev.gkeys /\ devUsed' = {}
WB == /\ Is("wb") /\ started' = [started EXCEPT ![Ev.g] = Ev.i]
      /\ G("a writer's counters increase", Ev.i = started[Ev.g] + 1)
      /\ UNCHANGED <<done, rbeg, sbeg, gkeys, devUsed>>
WE == /\ Is("we")
      /\ G("no fault-free write fails (C01)", Ev.ok)
      /\ done' = [done EXCEPT ![Ev.g] = Ev.i]
      /\ UNCHANGED <<started, rbeg, sbeg, gkeys, devUsed>>
RB == /\ Is("rb") /\ rbeg' = [rbeg EXCEPT ![Ev.r] = done]
      /\ UNCHANGED <<started, done, sbeg, gkeys, devUsed>>
RE == /\ Is("re")
      /\ G("a read does not fail", Ev.v >= 0)
      /\ G("a read is not older than a write that completed before it began (C06)", Ev.v >= rbeg[Ev.r][Ev.g])
      /\ G("a read returns only what was written (C06)", Ev.v <= started[Ev.g])
      /\ UNCHANGED <<started, done, rbeg, sbeg, gkeys, devUsed>>
SB == /\ Is("sb") /\ sbeg' = [sbeg EXCEPT ![Ev.s] = done]
      /\ UNCHANGED <<started, done, rbeg, gkeys, devUsed>>
\* value a scan shows for (g, j): 0 when the key is absent
ScanVal(vals, g, j) == LET hits == {i \in 1..Len(vals) : vals[i][1] = g /\ vals[i][2] = j} IN
                       IF hits = {} THEN 0 ELSE vals[CHOOSE i \in hits : TRUE][3]
Atomic(vals) == \A g \in DOMAIN started : \A j \in 1..gkeys : ScanVal(vals, g, j) = ScanVal(vals, g, 1)
SE == /\ Is("se")
      /\ G("a scan does not fail (C07: never an error or a file that is gone)", Ev.err = "")
      /\ G("a scan shows each key once, in order", \A a, b \in 1..Len(Ev.vals) : a < b =>
             (Ev.vals[a][1] < Ev.vals[b][1] \/ (Ev.vals[a][1] = Ev.vals[b][1] /\ Ev.vals[a][2] < Ev.vals[b][2])
              \/ Ev.vals[a][1] > Ev.vals[b][1] \/ (Ev.vals[a][1] = Ev.vals[b][1] /\ Ev.vals[a][2] > Ev.vals[b][2])))
      /\ G("a scan is not older than writes completed before it began, shows only written values (C06)",
           \A g \in DOMAIN started : \A j \in 1..gkeys :
              ScanVal(Ev.vals, g, j) >= sbeg[Ev.s][g] /\ ScanVal(Ev.vals, g, j) <= started[g])
      \* known finding (when listed in Dev): a snapshot taken while a batch is being inserted entry by
      \* entry shows part of it; admitted only in that shape: the keys of a group differ by the one
      \* batch in flight (values i-1 and i with i = started and not yet done)
      /\ IF Atomic(Ev.vals) THEN devUsed' = devUsed
         ELSE /\ G("a batch becomes visible atomically (C06)",
                   /\ "SnapshotAtAssignedSeq" \in Dev
                   /\ \A g \in DOMAIN started : \A j \in 1..gkeys :
                        ScanVal(Ev.vals, g, j) # ScanVal(Ev.vals, g, 1) =>
                          ({ScanVal(Ev.vals, g, j), ScanVal(Ev.vals, g, 1)} = {started[g] - 1, started[g]}))
              /\ devUsed' = devUsed \cup {(PrintT(<<"DEV-USED", "SnapshotAtAssignedSeq", l>>) :> "SnapshotAtAssignedSeq")[TRUE]}
      /\ UNCHANGED <<started, done, rbeg, sbeg, gkeys>>
End == /\ Is("end")
       /\ G("the flush and compaction threads did not fail", Ev.thread_errors = <<>>)
       /\ UNCHANGED <<started, done, rbeg, sbeg, gkeys, devUsed>>
\* no action for "hang": some client call never returned (C20)
TraceNext == Start \/ WB \/ WE \/ RB \/ RE \/ SB \/ SE \/ End
TraceSpec == Init /\ [][TraceNext]_vars
TraceAccepted ==
  LET d == TLCGet("stats").diameter IN
  IF d - 1 = Len(Rec) THEN TRUE
  ELSE Print(<<"TRACE-REJECTED", "matched", d - 1, "of", Len(Rec), "next", ToJson(Rec[d])>>, FALSE)
=============================================================================
