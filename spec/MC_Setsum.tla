----------------------------- MODULE MC_Setsum ------------------------------
(* Case analysis of the setsum algebra at column boundaries, the multiset level over hashed    *)
(* items supplied as data, and behaviour generation for replay against setsum::Setsum.          *)
EXTENDS Setsum, Json, IOUtils

CONSTANTS Mode, Emit

VARIABLES case, st, bag, h
vars == <<case, st, bag, h>>
View == <<case, st, bag>>
ViewOrders == <<case, st, bag, h>>     \* keeps every order of operations apart (items mode)

\* boundary values of one column for prime i: canonical ones and (through from_digest) non-canonical ones
Near(i) == LET p == P(i) IN
  {Zero, [h |-> 0, l |-> 1], [h |-> 0, l |-> 2], [h |-> 32768, l |-> 0], [h |-> 65535, l |-> 0],
   SubX(p, [h |-> 0, l |-> 2]), SubX(p, [h |-> 0, l |-> 1])}
NonCanon(i) == LET p == P(i) IN {p, AddX(p, [h |-> 0, l |-> 1]), [h |-> 65535, l |-> 65535]}
Inputs(i) == {FromDigestCol(i, a) : a \in Near(i) \cup NonCanon(i)}     \* what from_digest lets in
RawInputs(i) == Near(i) \cup NonCanon(i)

\* items as data: [{"item": [bytes...], "hash": [32 bytes]}], produced by an independent SHA3-256
Items == IF Mode = "items" THEN ndJsonDeserialize(IOEnv.ITEMS) ELSE <<>>
ItemState(n) == HashToState(Items[n].hash)

Init ==
  /\ h = <<>>
  /\ IF Mode = "algebra"
     THEN /\ case \in {[i |-> i, x |-> x, y |-> y, z |-> z] : i \in 1..8, x \in RawInputs(1), y \in RawInputs(1), z \in {Zero}}
                \cup {[i |-> 1, x |-> x, y |-> y, z |-> z] : x \in RawInputs(1), y \in RawInputs(1), z \in RawInputs(1)}
          /\ st = ZeroState /\ bag = <<>>
     ELSE /\ case = [i |-> 0] /\ st = ZeroState /\ bag = [n \in 1..Len(Items) |-> 0]

\* re-base a boundary value chosen relative to prime 1 onto prime i (same offset from 0 / from p)
Rebase(i, a) == IF Geq(a, [h |-> 65535, l |-> 65000]) /\ a # [h |-> 65535, l |-> 65535]
                THEN SubX(AddX(a, P(i)), P(1)) ELSE a

X == FromDigestCol(case.i, Rebase(case.i, case.x))
Y == FromDigestCol(case.i, Rebase(case.i, case.y))
Z == FromDigestCol(case.i, Rebase(case.i, case.z))

\* multiset level: insert or remove item n (remove only what is present); any order
Insert(n) == /\ Mode = "items" /\ bag[n] < 2
             /\ st' = AddState(st, ItemState(n))
             /\ bag' = [bag EXCEPT ![n] = @ + 1]
             /\ h' = Append(h, <<"ins", n>>) /\ UNCHANGED case
Remove(n) == /\ Mode = "items" /\ bag[n] > 0
             /\ st' = AddState(st, InvState(ItemState(n)))
             /\ bag' = [bag EXCEPT ![n] = @ - 1]
             /\ h' = Append(h, <<"rem", n>>) /\ UNCHANGED case
MCNext == \E n \in 1..Len(Items) : Insert(n) \/ Remove(n)
Spec == Init /\ [][MCNext]_vars
LenOk == Len(h) <= 5

(* ------------------------------- the laws ------------------------------- *)
i == case.i
Commutes   == Mode = "algebra" => AddCol(i, X, Y) = AddCol(i, Y, X)
Associates == Mode = "algebra" => Same(i, AddCol(i, AddCol(i, X, Y), Z), AddCol(i, X, AddCol(i, Y, Z)))
Identity   == Mode = "algebra" => AddCol(i, X, Zero) = X
Inverse    == Mode = "algebra" => SubCol(i, X, X) = Zero
SubUndoes  == Mode = "algebra" => SubCol(i, AddCol(i, X, Y), Y) = X
AddUndoes  == Mode = "algebra" => AddCol(i, SubCol(i, X, Y), Y) = X
Closed     == Mode = "algebra" => IsCanon(i, AddCol(i, X, Y)) /\ IsCanon(i, SubCol(i, X, Y))
RoundTrip  == Mode = "algebra" => FromDigestCol(i, BytesCol(ColBytes(AddCol(i, X, Y)))) = AddCol(i, X, Y)

\* multiset level: the state is a function of the bag only (order independence, remove undoes insert)
RECURSIVE SumBag(_, _)
SumBag(b, n) == IF n = 0 THEN ZeroState
                ELSE LET s == SumBag(b, n - 1)
                         one == ItemState(n)
                     IN IF b[n] = 0 THEN s ELSE IF b[n] = 1 THEN AddState(s, one) ELSE AddState(AddState(s, one), one)
BagDetermines == Mode = "items" => st = SumBag(bag, Len(Items))

C2(a) == IF IsPanic(a) THEN <<-1, -1>> ELSE <<a.h, a.l>>
EmitLine == Emit =>
  IF Mode = "algebra"
  THEN PrintT(<<"SETSUM", ToJson([i |-> i, x |-> C2(Rebase(i, case.x)), y |-> C2(Rebase(i, case.y)), z |-> C2(Rebase(i, case.z)),
                                   xin |-> C2(X), xy |-> C2(AddCol(i, X, Y)), xmy |-> C2(SubCol(i, X, Y)),
                                   xyz |-> C2(AddCol(i, AddCol(i, X, Y), Z)), xy_y |-> C2(SubCol(i, AddCol(i, X, Y), Y))])>>)
  ELSE PrintT(<<"SETSUM", ToJson([ops |-> h, digest |-> Digest(st)])>>)
=============================================================================
