--------------------------------- MODULE Lru ---------------------------------
(***************************************************************************)
(* sync42::lru::LeastRecentlyUsedCache as a sequential object: a list of   *)
(* [k, sz] from most to least recently used.  As coded: insert of a        *)
(* present key replaces the value in place (recency unchanged), insert     *)
(* evicts from the least recently used end while size > capacity (even the *)
(* entry just inserted), insert_no_evict never evicts, lookup moves to the *)
(* front, pop removes the least recently used entry.                       *)
(***************************************************************************)
EXTENDS Naturals, Sequences, FiniteSets, TLC, Json

CONSTANTS Keys, Sizes, Capacity, Emit

VARIABLES lru, h
vars == <<lru, h>>
View == lru

RECURSIVE SumSz(_)
SumSz(s) == IF s = <<>> THEN 0 ELSE s[1].sz + SumSz(Tail(s))
Pos(s, k) == LET hits == {i \in 1..Len(s) : s[i].k = k} IN IF hits = {} THEN 0 ELSE CHOOSE i \in hits : TRUE
Without(s, i) == SubSeq(s, 1, i - 1) \o SubSeq(s, i + 1, Len(s))
RECURSIVE Evict(_)
Evict(s) == IF SumSz(s) > Capacity /\ s # <<>> THEN Evict(SubSeq(s, 1, Len(s) - 1)) ELSE s

InsertNoEvict(s, k, sz) == LET i == Pos(s, k) IN IF i = 0 THEN <<[k |-> k, sz |-> sz]>> \o s ELSE [s EXCEPT ![i].sz = sz]
Insert(s, k, sz) == Evict(InsertNoEvict(s, k, sz))
Lookup(s, k) == LET i == Pos(s, k) IN IF i = 0 THEN s ELSE <<s[i]>> \o Without(s, i)
LookupResult(s, k) == LET i == Pos(s, k) IN IF i = 0 THEN 0 ELSE s[i].sz
Remove(s, k) == LET i == Pos(s, k) IN IF i = 0 THEN s ELSE Without(s, i)
Pop(s) == IF s = <<>> THEN s ELSE SubSeq(s, 1, Len(s) - 1)
PopResult(s) == IF s = <<>> THEN <<0, 0>> ELSE <<s[Len(s)].k, s[Len(s)].sz>>

Ops == {<<"insert", k, z>> : k \in Keys, z \in Sizes} \cup {<<"insert_no_evict", k, z>> : k \in Keys, z \in Sizes}
       \cup {<<"lookup", k>> : k \in Keys} \cup {<<"remove", k>> : k \in Keys} \cup {<<"pop">>}

Apply(s, op) == CASE op[1] = "insert" -> Insert(s, op[2], op[3])
                  [] op[1] = "insert_no_evict" -> InsertNoEvict(s, op[2], op[3])
                  [] op[1] = "lookup" -> Lookup(s, op[2])
                  [] op[1] = "remove" -> Remove(s, op[2])
                  [] op[1] = "pop" -> Pop(s)
\* what the call returns: lookup -> size of the value or 0; pop -> <<k, sz>>; others 0; plus the accounted size afterwards
Ret(s, op) == CASE op[1] = "lookup" -> <<LookupResult(s, op[2]), 0>>
                [] op[1] = "pop" -> PopResult(s)
                [] OTHER -> <<0, 0>>

Init == lru = <<>> /\ h = <<>>
Next == \E op \in Ops : lru' = Apply(lru, op) /\ h' = Append(h, <<op, Ret(lru, op), SumSz(lru')>>)
Spec == Init /\ [][Next]_vars

\* properties of the object
DistinctKeys == \A i, j \in 1..Len(lru) : i # j => lru[i].k # lru[j].k
\* size exceeds the capacity only by what insert_no_evict put in: an insert (with eviction) always ends within capacity
InsertRespectsCapacity == \A s \in {lru} : \A k \in Keys, z \in Sizes : SumSz(Insert(s, k, z)) <= Capacity \/ Insert(s, k, z) = <<>>

OpSeq == <<<<"pop">>>> \o [i \in 1..Cardinality(Keys) |-> <<"lookup", i>>] \o [i \in 1..Cardinality(Keys) |-> <<"remove", i>>]
         \o [i \in 1..Cardinality(Keys) |-> <<"insert", i, 1>>] \o [i \in 1..Cardinality(Keys) |-> <<"insert", i, 3>>]
         \o [i \in 1..Cardinality(Keys) |-> <<"insert_no_evict", i, 2>>]
\* one line per distinct state: program, and for every one-op extension the return value, size and the full drain order after it
Drain(s) == [i \in 1..Len(s) |-> <<s[Len(s) + 1 - i].k, s[Len(s) + 1 - i].sz>>]
EmitLine == Emit => PrintT(<<"LRU", ToJson([cap |-> Capacity, h |-> h, drain |-> Drain(lru),
                                           n |-> [i \in 1..Len(OpSeq) |-> <<OpSeq[i], Ret(lru, OpSeq[i]), SumSz(Apply(lru, OpSeq[i])), Drain(Apply(lru, OpSeq[i]))>>]])>>)
=============================================================================
