------------------------------ MODULE MC_Tree -------------------------------
(***************************************************************************)
(* Design model of the store over Tree.tla: writes, flush, the compaction  *)
(* selector (trivial moves first, then triangles grown by compute_bounds / *)
(* expand_compaction, limits), output cutting, garbage collection at the   *)
(* last level, and reopen (levels rebuilt from SST metadata by SCC/depth). *)
(* Small constants; every interleaving of these steps is explored.         *)
(***************************************************************************)
EXTENDS Tree, Json

CONSTANTS K,          \* keys 1..K
          MaxWrites,  \* number of write operations
          NL,         \* number of levels (16 in the code)
          MaxFiles,   \* bound on files ever created (state constraint)
          MaxInputs,  \* max_compaction_files
          MaxOuts,    \* a merge cuts its output into at most this many files
          GcVersions, \* gc policy "versions = N"
          MaxReopen,  \* bound on reopen steps
          Emit

VARIABLES mem, levels, files, all, gcd, seq, nf, reopens, h

vars == <<mem, levels, files, all, gcd, seq, nf, reopens, h>>
View == <<mem, levels, files, all, gcd, seq, nf, reopens>>

Keys == 1..K

Init == /\ mem = {} /\ levels = [l \in 1..NL |-> <<>>] /\ files = <<>> /\ all = {} /\ gcd = {}
        /\ seq = 0 /\ nf = 0 /\ reopens = 0 /\ h = <<>>

(* ------------------------------- writes -------------------------------- *)
Write(k, tomb) ==
  /\ seq < MaxWrites
  /\ seq' = seq + 1
  /\ LET e == [k |-> k, ts |-> seq', v |-> IF tomb THEN 0 ELSE seq']
     IN mem' = mem \cup {e} /\ all' = all \cup {e}
  /\ h' = Append(h, IF tomb THEN <<"del", k>> ELSE <<"put", k, seq'>>)
  /\ UNCHANGED <<levels, files, gcd, nf, reopens>>

NewFile(S) == (nf + 1) :> S

Flush ==
  /\ mem # {}
  /\ nf' = nf + 1
  /\ files' = NewFile(mem) @@ files
  /\ levels' = [levels EXCEPT ![1] = Append(@, nf + 1)]
  /\ mem' = {}
  /\ h' = Append(h, <<"flush">>)
  /\ UNCHANGED <<all, gcd, seq, reopens>>

(* --------------------------- compaction selection ---------------------- *)
FK(id) == FirstKey(files[id])
LK(id) == LastKey(files[id])

\* apply_compaction_inner: inputs leave levels lo..up-1; outputs replace the slice
\* [lower_bound(first_key), upper_bound(last_key)) of level up
ApplyCompaction(lo, up, fk, lk, inputs, outs, fs) ==
  LET upl == levels[up]
      lb == LowerBound(upl, fs, fk)
      ub == UpperBound(upl, fs, lk)
  IN [l \in 1..NL |->
        IF l = up THEN SubSeq(upl, 1, lb) \o outs \o (IF ub < Len(upl) THEN SubSeq(upl, (IF ub < lb THEN lb ELSE ub) + 1, Len(upl)) ELSE <<>>)
        ELSE IF l >= lo /\ l < up THEN SelectSeq(levels[l], LAMBDA id : id \notin inputs)
        ELSE levels[l]]

\* find_trivial_move: levels in order; level 0 offers only the file with the smallest
\* biggest_timestamp; other levels offer their files in order; the first file with no overlap
\* one level down wins.
TrivialAt(l) ==
  LET lv == levels[l]
      cands == IF lv = <<>> THEN <<>>
               ELSE IF l = 1
               THEN LET m == CHOOSE i \in 1..Len(lv) : \A j \in 1..Len(lv) :
                                 MaxTs(files[lv[i]]) < MaxTs(files[lv[j]]) \/ (MaxTs(files[lv[i]]) = MaxTs(files[lv[j]]) /\ i <= j)
                    IN <<lv[m]>>
               ELSE lv
      ok(id) == LowerBound(levels[l + 1], files, FK(id)) = UpperBound(levels[l + 1], files, LK(id))
      hits == SelectSeq(cands, ok)
  IN IF hits = <<>> THEN 0 ELSE hits[1]

RECURSIVE FirstTrivial(_)
FirstTrivial(l) == IF l >= NL THEN <<0, 0>> ELSE IF TrivialAt(l) # 0 THEN <<l, TrivialAt(l)>> ELSE FirstTrivial(l + 1)

TrivialMove ==
  LET t == FirstTrivial(1) IN
  /\ t[2] # 0
  /\ levels' = ApplyCompaction(t[1], t[1] + 1, FK(t[2]), LK(t[2]), {t[2]}, <<t[2]>>, files)
  /\ h' = Append(h, <<"compact">>)
  /\ UNCHANGED <<mem, files, all, gcd, seq, nf, reopens>>

\* compute_bounds: widen [fk, lk] level by level to a fixed point
RECURSIVE FixPoint(_, _, _)
FixPoint(lv, fk, lk) ==
  LET lb == LowerBound(lv, files, fk)  ub == UpperBound(lv, files, lk)
      fk2 == IF lb < Len(lv) /\ FK(lv[lb + 1]) < fk THEN FK(lv[lb + 1]) ELSE fk
      lk2 == IF ub > lb /\ LK(lv[ub]) > lk THEN LK(lv[ub]) ELSE lk
  IN IF fk2 = fk /\ lk2 = lk THEN [lb |-> lb, ub |-> ub, fk |-> fk, lk |-> lk] ELSE FixPoint(lv, fk2, lk2)

RECURSIVE Slices(_, _, _, _)
Slices(lo, l, fk, lk) ==   \* sequence of slices for levels l..NL, starting from lower level lo
  IF l > NL THEN <<>>
  ELSE LET s == IF l = 1 THEN [lb |-> 0, ub |-> Len(levels[1]), fk |-> fk, lk |-> lk]
                ELSE FixPoint(levels[l], fk, lk)
       IN <<s>> \o Slices(lo, l + 1, s.fk, s.lk)

SliceFiles(l, s) == {levels[l][i] : i \in (s.lb + 1)..s.ub}

\* expand_compaction: walk from the upper level up to the lower level, adding files that lie
\* wholly inside the window; the window becomes the hull of what was added.  As repaired (31b6007) a file
\* joins only if everything it overlaps in the deeper levels of the compaction is an input too
\* ("ExpandAddsUncoveredSst" in Dev: as found, containment in the window was enough).
KeysOverlap(a, b) == ~(LK(a) < FK(b) \/ LK(b) < FK(a))
CoveredBelow(id, l, up, inputs) ==
  \A m \in (l + 1)..up : \A o \in SeqToSet(levels[m]) : KeysOverlap(id, o) => o \in inputs
RECURSIVE Expand(_, _, _, _, _, _)
Expand(inputs, lo, l, fk, lk, up) ==
  IF l < lo THEN inputs
  ELSE LET add == {id \in SeqToSet(levels[l]) : /\ fk <= FK(id) /\ LK(id) <= lk /\ id \notin inputs
                                                  /\ ("ExpandAddsUncoveredSst" \in Dev \/ CoveredBelow(id, l, up, inputs))}
       IN IF add = {} \/ Cardinality(inputs) > MaxInputs THEN Expand(inputs, lo, l - 1, fk, lk, up)
          ELSE Expand(inputs \cup add, lo, l - 1, MinOf({FK(id) : id \in add}), MaxOf({LK(id) : id \in add}), up)

\* find_best_compaction: one candidate per upper level, up to and including the first level whose
\* slice is empty; each candidate holds the slices of all levels lo..up
Candidates(lo) ==
  LET lv == levels[lo]
      starts == IF lo = 1 THEN {<<MinOf({FK(id) : id \in SeqToSet(lv)}), MaxOf({LK(id) : id \in SeqToSet(lv)})>>}
                ELSE {<<FK(id), LK(id)>> : id \in SeqToSet(lv)}
  IN UNION { LET sl == Slices(lo, lo, st[1], st[2])     \* sl[i] is the slice of level lo + i - 1
                 empties == {i \in 1..Len(sl) : sl[i].lb = sl[i].ub}
                 stop == IF empties = {} THEN Len(sl) ELSE MinOf(empties)
             IN { LET base == UNION {SliceFiles(lo + j - 1, sl[j]) : j \in 1..i}
                  IN [lo |-> lo, up |-> lo + i - 1, fk |-> sl[i].fk, lk |-> sl[i].lk,
                      inputs |-> Expand(base, lo, lo + i - 1, sl[i].fk, sl[i].lk, lo + i - 1), base |-> base]
                  : i \in 2..stop }
           : st \in starts }

Selectable == UNION {IF levels[lo] = <<>> THEN {} ELSE {c \in Candidates(lo) : Cardinality(c.base) <= MaxInputs} : lo \in 1..NL-1}

\* all ways to cut a sorted sequence into at most n non-empty pieces; as repaired, never between
\* two versions of one key ("CutInsideKey" in Dev: as found, anywhere)
RECURSIVE CutsOf(_, _)
CutsOf(s, n) ==
  IF s = <<>> THEN {<<>>}
  ELSE IF n = 1 THEN {<<s>>}
  ELSE {<<s>>} \cup UNION {{<<SubSeq(s, 1, i)>> \o rest : rest \in CutsOf(SubSeq(s, i + 1, Len(s)), n - 1)}
                           : i \in {j \in 1..Len(s)-1 : "CutInsideKey" \in Dev \/ s[j].k # s[j + 1].k}}

\* GarbageCollector with VersionsDeterminer (sst/src/gc.rs), per key, newest first:
\* tombstones accumulate until a value; retain(value) counts 1 (no tombstones before it) or 2;
\* retained iff the running count <= N; a retained value keeps the oldest tombstone of its run.
RECURSIVE GcKey(_, _, _, _)
GcKey(vs, i, count, tombs) ==       \* vs: versions of one key, newest first; returns the retained set
  IF i > Len(vs) THEN {}
  ELSE IF vs[i].v = 0 THEN GcKey(vs, i + 1, count, Append(tombs, vs[i]))
  ELSE LET c2 == count + (IF tombs = <<>> THEN 1 ELSE 2)
       IN (IF c2 <= GcVersions THEN {vs[i]} \cup (IF tombs = <<>> THEN {} ELSE {tombs[Len(tombs)]}) ELSE {})
          \cup GcKey(vs, i + 1, c2, <<>>)
GcRetain(S) == UNION {GcKey(SortEntries({e \in S : e.k = k}), 1, 0, <<>>) : k \in {e.k : e \in S}}

DoMerge(c) ==
  LET inE == UNION {files[id] : id \in c.inputs}
      gc == c.up = NL
      keep == IF gc THEN GcRetain(inE) ELSE inE
  IN /\ Cardinality(c.inputs) >= 2
     /\ \E outsE \in CutsOf(SortEntries(keep), MaxOuts) :
          LET n == Len(outsE)
              newf == [id \in (nf + 1)..(nf + n) |-> SeqToSet(outsE[id - nf])]
              fs2 == newf @@ files
          IN /\ nf' = nf + n
             /\ files' = fs2
             /\ levels' = ApplyCompaction(c.lo, c.up, c.fk, c.lk, c.inputs, [i \in 1..n |-> nf + i], fs2)
             /\ gcd' = gcd \cup (inE \ keep)
     /\ h' = Append(h, <<"compact">>)
     /\ UNCHANGED <<mem, all, seq, reopens>>

\* a single-input "compaction" is a move (perform_compaction)
DoMoveOrMerge(c) ==
  IF Cardinality(c.inputs) = 1
  THEN /\ levels' = ApplyCompaction(c.lo, c.up, c.fk, c.lk, c.inputs, <<CHOOSE id \in c.inputs : TRUE>>, files)
       /\ h' = Append(h, <<"compact">>)
       /\ UNCHANGED <<mem, files, all, gcd, seq, nf, reopens>>
  ELSE DoMerge(c)

\* compaction_thread, one iteration: trivial moves are preferred over triangles
Compact == \/ TrivialMove
           \/ /\ FirstTrivial(1)[2] = 0
              /\ \E c \in Selectable : DoMoveOrMerge(c)

(* -------------------------------- reopen -------------------------------- *)
\* tree/recover.rs for the handful of files of this model (the recursive form is faster here than
\* Tree!RecoverLevels' tabulated one; both transcribe the same algorithm)
Overlap(a, b, fs) == FirstKey(fs[a]) <= LastKey(fs[b]) /\ FirstKey(fs[b]) <= LastKey(fs[a])
Edge(a, b, fs) == a # b /\ Overlap(a, b, fs) /\ ~(MaxTs(fs[a]) < MinTs(fs[b]))     \* a is not strictly older than b
RECURSIVE ReachN(_, _, _, _)
ReachN(S, ids, fs, n) == IF n = 0 THEN S ELSE ReachN(S \cup {b \in ids : \E a \in S : Edge(a, b, fs)}, ids, fs, n - 1)
Reach(a, ids, fs) == ReachN({a}, ids, fs, Cardinality(ids))
Scc(a, ids, fs) == {b \in Reach(a, ids, fs) : a \in Reach(b, ids, fs)}
RECURSIVE Depth(_, _, _, _)
Depth(C, ids, fs, fuel) ==   \* longest path (in SCCs) ending at component C
  LET preds == {Scc(a, ids, fs) : a \in {x \in ids \ C : \E y \in C : Edge(x, y, fs)}} \ {C}
  IN IF preds = {} \/ fuel = 0 THEN 0 ELSE 1 + MaxOf({Depth(P, ids, fs, fuel - 1) : P \in preds})

RecoverOrdered(ids, fs) ==
  LET lvl(a) == Depth(Scc(a, ids, fs), ids, fs, Cardinality(ids))
      mx == IF ids = {} THEN 0 ELSE MaxOf({lvl(a) : a \in ids})
      delta == IF mx >= NL THEN mx - NL + 1 ELSE 0
      adj(a) == IF lvl(a) < delta THEN 0 ELSE lvl(a) - delta
      L0Less(a, b) == MinTs(fs[a]) < MinTs(fs[b]) \/ (MinTs(fs[a]) = MinTs(fs[b]) /\ a < b)
      LnLess(a, b) == FirstKey(fs[a]) < FirstKey(fs[b])
                      \/ (FirstKey(fs[a]) = FirstKey(fs[b]) /\ MinTs(fs[a]) > MinTs(fs[b]))
                      \/ (FirstKey(fs[a]) = FirstKey(fs[b]) /\ MinTs(fs[a]) = MinTs(fs[b]) /\ a < b)
  IN [l \in 1..NL |-> IF l = 1 THEN SortSeq(SetToSeq({a \in ids : adj(a) = 0}), L0Less)
                       ELSE SortSeq(SetToSeq({a \in ids : adj(a) = l - 1}), LnLess)]

Reopen ==
  /\ reopens < MaxReopen
  /\ reopens' = reopens + 1
  /\ LET fs2 == IF mem = {} THEN files ELSE NewFile(mem) @@ files
         ids == Ids(levels) \cup (IF mem = {} THEN {} ELSE {nf + 1})
     IN /\ files' = fs2
        /\ nf' = IF mem = {} THEN nf ELSE nf + 1
        /\ levels' = RecoverOrdered(ids, fs2)
  /\ mem' = {}
  /\ h' = Append(h, <<"reopen">>)
  /\ UNCHANGED <<all, gcd, seq>>

MCNext == \/ \E k \in Keys, tomb \in BOOLEAN : Write(k, tomb)
        \/ Flush
        \/ Compact
        \/ Reopen

Spec == Init /\ [][MCNext]_vars

Bounded == nf <= MaxFiles

(* ------------------------------- properties ----------------------------- *)
ReadLatest == ReadLatestAt(mem, levels, files, all, Keys)
ScanOk     == ScanMatchesIdeal(mem, levels, files, all)
Conserved  == NoLoss(mem, levels, files, all, gcd)
NoDup      == NoDuplicates(levels, files)
GcSafe     == \A e \in gcd : Visible(Newest(all \ gcd, e.k, MAXTS)) = Visible(Newest(all, e.k, MAXTS))
\* C05: a compaction that is not a garbage collection leaves reads at every timestamp unchanged
ReadsAtAnyTsKept ==
  [][(gcd' = gcd /\ mem' = mem /\ all' = all /\ reopens' = reopens) =>
        \A k \in Keys, t \in 1..MaxWrites : TreeLoad(levels', files', k, t, 1) = TreeLoad(levels, files, k, t, 1)]_vars
\* reads at any timestamp equal the history as long as nothing was garbage collected
ReadAtAnyTs == gcd = {} => \A k \in Keys, t \in 1..MaxWrites :
                 Visible(MechLoad(mem, levels, files, k, t)) = Visible(Newest(all, k, t))

\* every selectable compaction takes, with each input, everything that input overlaps in the deeper levels it spans
\* (otherwise newer entries end up below older ones of the same key)
LevelOf(id) == CHOOSE l \in 1..NL : id \in SeqToSet(levels[l])
CompactionSafe(c) == \A id \in c.inputs : CoveredBelow(id, LevelOf(id), c.up, c.inputs)
SelectableSafe == \A c \in Selectable : CompactionSafe(c)

\* The shape of the tree at which the expand_compaction defect showed on the real store (10.14 of DESIGN.md),
\* abstracted to three keys and four levels: level 2 holds {1@7} and {2@6}, level 3 {1@5} and {2@4, 3@3}, level 4
\* {1@2, 2@1}.  From here only compactions can happen (all writes used up).  A compaction started from {1@7} is
\* widened to keys 1..2 by the level-4 file; as found, expand then adds {2@6} although {2@4, 3@3} stays behind.
E3(k, t) == [k |-> k, ts |-> t, v |-> t]
WitnessInit == /\ mem = {} /\ gcd = {} /\ seq = 7 /\ nf = 5 /\ reopens = 0 /\ h = <<>>
               /\ files = (1 :> {E3(1, 7)}) @@ (2 :> {E3(2, 6)}) @@ (3 :> {E3(1, 5)}) @@ (4 :> {E3(2, 4), E3(3, 3)}) @@ (5 :> {E3(1, 2), E3(2, 1)})
               /\ levels = <<<<>>, <<1, 2>>, <<3, 4>>, <<5>>>>
               /\ all = {E3(1, 7), E3(2, 6), E3(1, 5), E3(2, 4), E3(3, 3), E3(1, 2), E3(2, 1)}

EmitLine == Emit => PrintT(<<"HISTORY", ToJson([ops |-> h])>>)
=============================================================================
