------------------------------- MODULE Cursor -------------------------------
(***************************************************************************)
(* Cursors of rescrv/blue's `sst` crate.                                   *)
(*                                                                         *)
(* Two descriptions of every combinator:                                   *)
(*   - denotational: the sequence the combinator stands for (DMerge,       *)
(*     DConcat, DPrune, DBounds) walked by the abstract cursor (a position *)
(*     0..Len+1 in that sequence);                                         *)
(*   - operational: a transcription of the Rust code, one TLA+ operator    *)
(*     per Rust method, same control flow (merging_cursor.rs,              *)
(*     concat_cursor.rs, pruning_cursor.rs, bounds_cursor.rs,              *)
(*     lazy_cursor.rs).  Cursors are tagged records so that they nest the  *)
(*     way the Rust generics do.                                           *)
(*                                                                         *)
(* Named deviations (constant Dev) switch between the code as found and    *)
(* the behaviour the property demands; see /verif/known_findings.json.     *)
(***************************************************************************)
EXTENDS Naturals, Integers, Sequences, FiniteSets, SequencesExt, TLC

CONSTANT Dev      \* set of deviation names that are switched on

\* An entry is [k, ts, v]; k >= 1, ts >= 1; v = 0 is a tombstone, v >= 1 a value id.
NoEntry  == [k |-> 0, ts |-> 0, v |-> 0]
ErrEntry == [k |-> -1, ts |-> 0, v |-> 0]
MAXTS    == 1000000

\* KeyRef order: key ascending, timestamp descending.
Less(a, b) == a.k < b.k \/ (a.k = b.k /\ a.ts > b.ts)
Leq(a, b)  == Less(a, b) \/ (a.k = b.k /\ a.ts = b.ts)

IsSortedTable(s) == \A i \in 1..Len(s)-1 : Less(s[i], s[i+1])

-----------------------------------------------------------------------------
(* Abstract cursor over a sorted sequence s: position p in 0..Len(s)+1.    *)

APosKey(s, p)  == IF p >= 1 /\ p <= Len(s) THEN s[p] ELSE NoEntry
AFirst(s)      == 0
ALast(s)       == Len(s) + 1
ASeek(s, k)    == LET hits == {i \in 1..Len(s) : s[i].k >= k}
                  IN IF hits = {} THEN Len(s) + 1 ELSE CHOOSE i \in hits : \A j \in hits : i <= j
ANext(s, p)    == IF p >= Len(s) + 1 THEN Len(s) + 1 ELSE p + 1
APrev(s, p)    == IF p <= 0 THEN 0 ELSE p - 1

-----------------------------------------------------------------------------
(* Denotations.                                                            *)

SeqToSet(s) == {s[i] : i \in 1..Len(s)}

SortEntries(S) == SortSeq(SetToSeq(S), Less)

DMerge(tables)  == SortEntries(UNION {SeqToSet(tables[i]) : i \in 1..Len(tables)})
DConcat(tables) == FlattenSeq(tables)

\* newest version of key k with ts <= t in s (as a set of at most one entry)
NewestLE(S, k, t) == {e \in S : e.k = k /\ e.ts <= t /\ \A f \in S : (f.k = k /\ f.ts <= t) => f.ts <= e.ts}
DPrune(s, t) == LET S == SeqToSet(s)
                    keep == {e \in S : e \in NewestLE(S, e.k, t) /\ e.v # 0}
                IN SortEntries(keep)

\* bounds are [kind |-> "U" | "I" | "E", k |-> key]
AboveLo(e, lo) == CASE lo.kind = "U" -> TRUE [] lo.kind = "I" -> e.k >= lo.k [] lo.kind = "E" -> e.k > lo.k
BelowHi(e, hi) == CASE hi.kind = "U" -> TRUE [] hi.kind = "I" -> e.k <= hi.k [] hi.kind = "E" -> e.k < hi.k
DBounds(s, lo, hi) == SelectSeq(s, LAMBDA e : AboveLo(e, lo) /\ BelowHi(e, hi))

-----------------------------------------------------------------------------
(* Operational cursors.                                                    *)
(*   [t |-> "vec",   s, p]                      ReferenceCursor / SstCursor *)
(*   [t |-> "lazy",  st, s, p]                  LazyCursor over an SstCursor*)
(*   [t |-> "concat", kids, pos]                ConcatenatingCursor         *)
(*   [t |-> "merge", fwd, kids]                 MergingCursor (heap order)  *)
(*   [t |-> "prune", c, ts, skip]               PruningCursor (skip 0=None) *)
(*   [t |-> "bounds", c, st, lo, hi]            BoundsCursor                *)

Vec(s) == [t |-> "vec", s |-> s, p |-> 0]

RECURSIVE Key(_), SeekFirst(_), SeekLast(_), Seek(_, _), Next(_), Prev(_)
RECURSIVE ConcatSeekLoop(_, _, _, _), ConcatSeekBack(_, _, _), ConcatNextLoop(_), ConcatPrevLoop(_)
RECURSIVE Perc(_, _, _), HeapifyFrom(_, _, _)
RECURSIVE PruneFwdLoop(_), PruneSkipBack(_), PruneBackRun(_, _), PruneFwdTo(_, _), PrunePrevLoop(_)
RECURSIVE BoundsNextLoop(_), BoundsSkipEq(_, _)

HasKey(c) == Key(c).k # 0
Val(c)    == Key(c).v          \* 0 when not positioned or tombstone (Cursor::value() is None)

(* ------------------------------ concat -------------------------------- *)
Reposition(c, idx) ==
  IF c.pos # idx
  THEN [c EXCEPT !.kids[c.pos] = SeekFirst(c.kids[c.pos]), !.pos = idx]
  ELSE c

ConcatNew(kids) == [t |-> "concat", kids |-> [kids EXCEPT ![1] = SeekFirst(kids[1])], pos |-> 1]

ConcatAtLastPrev(c, mid) ==   \* reposition(mid); seek_to_last(); prev()
  LET c1 == Reposition(c, mid)
  IN  [c1 EXCEPT !.kids[mid] = Prev(SeekLast(c1.kids[mid]))]

\* the inner `while mid > left && key().is_none()` loop
ConcatSeekBack(c, mid, left) ==
  IF mid > left /\ ~HasKey(c.kids[c.pos])
  THEN ConcatSeekBack(ConcatAtLastPrev(c, mid - 1), mid - 1, left)
  ELSE [c |-> c, mid |-> mid]

\* the outer `while left < right` loop (0-based in Rust, 1-based here).
\* As found ("ConcatSeekBreaksAtLeft"): `if mid == left { break; }` before comparing.
\* Repaired: compare whenever the probed child is positioned; an empty run left..mid0 sends the
\* search to the right of mid0.
ConcatSeekLoop(c, k, left, right) ==
  IF left < right
  THEN LET mid0 == (left + right) \div 2
           r == ConcatSeekBack(ConcatAtLastPrev(c, mid0), mid0, left)
           lastk == Key(r.c.kids[r.c.pos])
       IN IF "ConcatSeekBreaksAtLeft" \in Dev
          THEN IF r.mid = left THEN [c |-> r.c, left |-> left]
               ELSE IF lastk.k >= k THEN ConcatSeekLoop(r.c, k, left, r.mid)
               ELSE ConcatSeekLoop(r.c, k, r.mid + 1, right)
          ELSE IF lastk.k # 0 /\ lastk.k >= k THEN ConcatSeekLoop(r.c, k, left, r.mid)
               ELSE ConcatSeekLoop(r.c, k, mid0 + 1, right)
  ELSE [c |-> c, left |-> left]

ConcatSeek(c, k) ==
  LET r  == ConcatSeekLoop(c, k, 1, Len(c.kids))
      c1 == Reposition(r.c, r.left)
  IN  [c1 EXCEPT !.kids[c1.pos] = Seek(c1.kids[c1.pos], k)]

ConcatNextLoop(c) ==
  LET c1 == [c EXCEPT !.kids[c.pos] = Next(c.kids[c.pos])]
      exhausted == IF "ConcatNextTestsValue" \in Dev THEN Val(c1.kids[c1.pos]) = 0
                                                      ELSE ~HasKey(c1.kids[c1.pos])
  IN IF exhausted /\ c1.pos + 1 <= Len(c1.kids)
     THEN LET c2 == Reposition(c1, c1.pos + 1)
          IN ConcatNextLoop([c2 EXCEPT !.kids[c2.pos] = SeekFirst(c2.kids[c2.pos])])
     ELSE c1

ConcatPrevLoop(c) ==
  LET c1 == [c EXCEPT !.kids[c.pos] = Prev(c.kids[c.pos])]
  IN IF ~HasKey(c1.kids[c1.pos]) /\ c1.pos > 1
     THEN LET c2 == Reposition(c1, c1.pos - 1)
          IN ConcatPrevLoop([c2 EXCEPT !.kids[c2.pos] = SeekLast(c2.kids[c2.pos])])
     ELSE c1

(* ------------------------------- merge -------------------------------- *)
IsLessC(fwd, a, b) ==
  LET ka == Key(a)  kb == Key(b)
  IN IF ka.k # 0 /\ kb.k # 0 THEN (IF fwd THEN Less(ka, kb) ELSE Less(kb, ka))
     ELSE ka.k # 0 /\ kb.k = 0

SwapAt(s, i, j) == [s EXCEPT ![i] = s[j], ![j] = s[i]]

Perc(ks, fwd, i) ==
  LET l == 2 * i  r == 2 * i + 1  n == Len(ks)
  IN IF l > n THEN ks
     ELSE LET ch == IF r > n \/ IsLessC(fwd, ks[l], ks[r]) THEN l ELSE r
          IN IF IsLessC(fwd, ks[i], ks[ch]) THEN ks ELSE Perc(SwapAt(ks, i, ch), fwd, ch)

HeapifyFrom(ks, fwd, i) == IF i < 1 THEN ks ELSE HeapifyFrom(Perc(ks, fwd, i), fwd, i - 1)
Heapify(ks, fwd) == HeapifyFrom(ks, fwd, Len(ks))

MergeSeekFirst(c) ==
  LET ks == Heapify([i \in 1..Len(c.kids) |-> Next(SeekFirst(c.kids[i]))], TRUE)
  IN [c EXCEPT !.fwd = TRUE, !.kids = IF Len(ks) = 0 THEN ks ELSE [ks EXCEPT ![1] = SeekFirst(ks[1])]]
MergeSeekLast(c) ==
  LET ks == Heapify([i \in 1..Len(c.kids) |-> Prev(SeekLast(c.kids[i]))], FALSE)
  IN [c EXCEPT !.fwd = FALSE, !.kids = IF Len(ks) = 0 THEN ks ELSE [ks EXCEPT ![1] = SeekLast(ks[1])]]
MergeSeek(c, k) ==
  [c EXCEPT !.fwd = TRUE, !.kids = Heapify([i \in 1..Len(c.kids) |-> Seek(c.kids[i], k)], TRUE)]
MergePrev(c) ==
  IF c.fwd THEN [c EXCEPT !.fwd = FALSE, !.kids = Heapify([i \in 1..Len(c.kids) |-> Prev(c.kids[i])], FALSE)]
  ELSE IF Len(c.kids) = 0 THEN c
  ELSE [c EXCEPT !.kids = Perc([c.kids EXCEPT ![1] = Prev(c.kids[1])], FALSE, 1)]
MergeNext(c) ==
  IF ~c.fwd THEN [c EXCEPT !.fwd = TRUE, !.kids = Heapify([i \in 1..Len(c.kids) |-> Next(c.kids[i])], TRUE)]
  ELSE IF Len(c.kids) = 0 THEN c
  ELSE [c EXCEPT !.kids = Perc([c.kids EXCEPT ![1] = Next(c.kids[1])], TRUE, 1)]
MergeNew(kids) == MergeSeekFirst([t |-> "merge", fwd |-> TRUE, kids |-> kids])

(* ------------------------------- prune -------------------------------- *)
PruneNew(c, ts) == [t |-> "prune", c |-> SeekFirst(c), ts |-> ts, skip |-> 0]
SetSkip(c) == [c EXCEPT !.skip = Key(c.c).k]     \* 0 when not positioned

\* the shared loop of seek (entered after the inner seek) and next (entered after an inner next)
PruneFwdLoop(c) ==
  LET kr == Key(c.c)
  IN IF kr.k = 0 THEN c
     ELSE IF kr.ts <= c.ts /\ kr.v = 0 THEN PruneFwdLoop([SetSkip(c) EXCEPT !.c = Next(c.c)])
     ELSE IF kr.ts <= c.ts /\ (c.skip = 0 \/ c.skip # kr.k) THEN SetSkip(c)
     ELSE PruneFwdLoop([c EXCEPT !.c = Next(c.c)])

PruneSeek(c, k) == PruneFwdLoop([c EXCEPT !.skip = 0, !.c = Seek(c.c, k)])
PruneNext(c)    == PruneFwdLoop([c EXCEPT !.c = Next(c.c)])

\* `while self.skip_key.is_some()`: result [c, done]
PruneSkipBack(c) ==
  IF c.skip # 0
  THEN LET kr == Key(c.c)
       IN IF kr.k = 0 THEN [c |-> [c EXCEPT !.skip = 0], done |-> TRUE]
          ELSE IF c.skip # kr.k THEN PruneSkipBack([c EXCEPT !.skip = 0])
          ELSE PruneSkipBack([c EXCEPT !.c = Prev(c.c)])
  ELSE [c |-> c, done |-> FALSE]

\* `loop { prev; if none break; if ts > t || key != target break }`
PruneBackRun(c, target) ==
  LET c1 == [c EXCEPT !.c = Prev(c.c)]
      kr == Key(c1.c)
  IN IF kr.k = 0 THEN c1
     ELSE IF kr.ts > c.ts \/ kr.k # target THEN c1
     ELSE PruneBackRun(c1, target)

\* `while let Some(kr) = key() { if ts <= t && key == target break else next }`
PruneFwdTo(c, target) ==
  LET kr == Key(c.c)
  IN IF kr.k = 0 THEN c
     ELSE IF kr.ts <= c.ts /\ kr.k = target THEN c
     ELSE PruneFwdTo([c EXCEPT !.c = Next(c.c)], target)

PrunePrevLoop(c) ==
  LET r == PruneSkipBack([c EXCEPT !.c = Prev(c.c)])
  IN IF r.done THEN r.c
     ELSE LET c1 == r.c
              kr == Key(c1.c)
          IN IF kr.k = 0 THEN [c1 EXCEPT !.skip = 0]
             ELSE IF kr.ts > c1.ts THEN PrunePrevLoop(SetSkip(c1))
             ELSE LET target == kr.k
                      c2 == PruneBackRun(c1, target)
                      c3 == IF Key(c2.c).k = 0 THEN [c2 EXCEPT !.c = Next(c2.c)] ELSE c2
                      c4 == PruneFwdTo(c3, target)
                  IN IF Key(c4.c).k = 0 THEN [c4 EXCEPT !.skip = -1]     \* logic error
                     ELSE IF Key(c4.c).v # 0 THEN SetSkip(c4)
                     ELSE PrunePrevLoop(SetSkip(c4))

PrunePrev(c) == PrunePrevLoop(IF Key(c.c).k = 0 THEN [c EXCEPT !.skip = 0] ELSE c)

(* ------------------------------- bounds ------------------------------- *)
StartExceeded(c) ==
  LET kr == Key(c.c)
  IN IF kr.k # 0 /\ ~AboveLo(kr, c.lo) THEN [c EXCEPT !.st = "before"] ELSE c
EndExceeded(c) ==
  LET kr == Key(c.c)
  IN IF kr.k # 0 /\ ~BelowHi(kr, c.hi) THEN [c EXCEPT !.st = "after"] ELSE c

BoundsSeekFirst(c) ==
  LET inner == IF c.lo.kind = "U" THEN SeekFirst(c.c) ELSE Seek(c.c, c.lo.k)
      inner2 == IF Key(inner).k # 0 THEN Prev(inner) ELSE inner
  IN EndExceeded([c EXCEPT !.st = "before", !.c = inner2])

BoundsSkipEq(inner, k) == IF Key(inner).k = k THEN BoundsSkipEq(Next(inner), k) ELSE inner

BoundsSeekLast(c) ==
  LET inner == CASE c.hi.kind = "U" -> SeekLast(c.c)
                 [] c.hi.kind = "I" -> BoundsSkipEq(Seek(c.c, c.hi.k), c.hi.k)
                 [] c.hi.kind = "E" -> Seek(c.c, c.hi.k)
  IN StartExceeded([c EXCEPT !.st = "after", !.c = inner])

BoundsNextLoop(c) ==
  IF c.st # "after"
  THEN LET c1 == EndExceeded(StartExceeded([c EXCEPT !.c = Next(c.c), !.st = "pos"]))
       IN IF c1.st # "before" THEN c1 ELSE BoundsNextLoop(c1)
  ELSE c

BoundsPrev(c) ==
  StartExceeded(IF c.st # "before" THEN [c EXCEPT !.c = Prev(c.c), !.st = "pos"] ELSE c)

BoundsSeek(c, k) ==
  LET c1 == StartExceeded(EndExceeded([c EXCEPT !.st = "pos", !.c = Seek(c.c, k)]))
  IN IF c1.st = "before" THEN BoundsNextLoop(BoundsSeekFirst(c1))
     \* As found ("BoundsSeekPastEnd"): a seek that lands beyond the end bound (or at the inner
     \* cursor's end) leaves the inner cursor there, so a following prev() can surface an entry
     \* beyond the end bound.  Repaired: such a seek is a seek_to_last().
     ELSE IF "BoundsSeekPastEnd" \notin Dev /\ (c1.st = "after" \/ ~HasKey(c1.c)) THEN BoundsSeekLast(c1)
     ELSE c1

BoundsNew(c, lo, hi) == BoundsSeekFirst([t |-> "bounds", c |-> c, st |-> "before", lo |-> lo, hi |-> hi])

(* -------------------------------- lazy -------------------------------- *)
LazyNew(s) == [t |-> "lazy", st |-> "first", s |-> s, p |-> 0]
LazyFix(c, endst) == IF c.p < 1 \/ c.p > Len(c.s) THEN [c EXCEPT !.st = endst] ELSE [c EXCEPT !.st = "inst"]

(* ----------------------------- dispatch ------------------------------- *)
Key(c) ==
  CASE c.t = "vec"    -> APosKey(c.s, c.p)
    [] c.t = "lazy"   -> IF c.st = "inst" THEN APosKey(c.s, c.p) ELSE NoEntry
    [] c.t = "concat" -> Key(c.kids[c.pos])
    [] c.t = "merge"  -> IF Len(c.kids) = 0 THEN NoEntry ELSE Key(c.kids[1])
    [] c.t = "prune"  -> IF c.skip = -1 THEN ErrEntry ELSE Key(c.c)
    [] c.t = "bounds" -> IF c.st = "pos" THEN Key(c.c) ELSE NoEntry

SeekFirst(c) ==
  CASE c.t = "vec"    -> [c EXCEPT !.p = 0]
    [] c.t = "lazy"   -> [c EXCEPT !.st = "first"]
    [] c.t = "concat" -> LET c1 == Reposition(c, 1) IN [c1 EXCEPT !.kids[1] = SeekFirst(c1.kids[1])]
    [] c.t = "merge"  -> MergeSeekFirst(c)
    [] c.t = "prune"  -> [c EXCEPT !.skip = 0, !.c = SeekFirst(c.c)]
    [] c.t = "bounds" -> BoundsSeekFirst(c)

SeekLast(c) ==
  CASE c.t = "vec"    -> [c EXCEPT !.p = Len(c.s) + 1]
    [] c.t = "lazy"   -> [c EXCEPT !.st = "last"]
    [] c.t = "concat" -> LET n == Len(c.kids) c1 == Reposition(c, n) IN [c1 EXCEPT !.kids[n] = SeekLast(c1.kids[n])]
    [] c.t = "merge"  -> MergeSeekLast(c)
    [] c.t = "prune"  -> [c EXCEPT !.skip = 0, !.c = SeekLast(c.c)]
    [] c.t = "bounds" -> BoundsSeekLast(c)

Seek(c, k) ==
  CASE c.t = "vec"    -> [c EXCEPT !.p = ASeek(c.s, k)]
    [] c.t = "lazy"   -> LazyFix([c EXCEPT !.p = ASeek(c.s, k)], "last")
    [] c.t = "concat" -> ConcatSeek(c, k)
    [] c.t = "merge"  -> MergeSeek(c, k)
    [] c.t = "prune"  -> PruneSeek(c, k)
    [] c.t = "bounds" -> BoundsSeek(c, k)

Next(c) ==
  CASE c.t = "vec"    -> [c EXCEPT !.p = ANext(c.s, c.p)]
    [] c.t = "lazy"   -> (CASE c.st = "first" -> LazyFix([c EXCEPT !.p = 1], "last")
                            [] c.st = "last"  -> c
                            [] c.st = "inst"  -> LazyFix([c EXCEPT !.p = c.p + 1], "last"))
    [] c.t = "concat" -> ConcatNextLoop(c)
    [] c.t = "merge"  -> MergeNext(c)
    [] c.t = "prune"  -> PruneNext(c)
    [] c.t = "bounds" -> BoundsNextLoop(c)

Prev(c) ==
  CASE c.t = "vec"    -> [c EXCEPT !.p = APrev(c.s, c.p)]
    [] c.t = "lazy"   -> (CASE c.st = "first" -> c
                            [] c.st = "last"  -> LazyFix([c EXCEPT !.p = Len(c.s)], "first")
                            [] c.st = "inst"  -> LazyFix([c EXCEPT !.p = c.p - 1], "first"))
    [] c.t = "concat" -> ConcatPrevLoop(c)
    [] c.t = "merge"  -> MergePrev(c)
    [] c.t = "prune"  -> PrunePrev(c)
    [] c.t = "bounds" -> BoundsPrev(c)

RECURSIVE Build(_), Denote(_)
Build(e) ==
  CASE e.op = "vec"    -> Vec(e.s)
    [] e.op = "lazy"   -> LazyNew(e.s)
    [] e.op = "merge"  -> MergeNew([i \in 1..Len(e.kids) |-> Build(e.kids[i])])
    [] e.op = "concat" -> ConcatNew([i \in 1..Len(e.kids) |-> Build(e.kids[i])])
    [] e.op = "prune"  -> PruneNew(Build(e.c), e.ts)
    [] e.op = "bounds" -> BoundsNew(Build(e.c), e.lo, e.hi)
Denote(e) ==
  CASE e.op = "vec"    -> e.s
    [] e.op = "lazy"   -> e.s
    [] e.op = "merge"  -> DMerge([i \in 1..Len(e.kids) |-> Denote(e.kids[i])])
    [] e.op = "concat" -> DConcat([i \in 1..Len(e.kids) |-> Denote(e.kids[i])])
    [] e.op = "prune"  -> DPrune(Denote(e.c), e.ts)
    [] e.op = "bounds" -> DBounds(Denote(e.c), e.lo, e.hi)

\* one step of a program: op is <<"first">>, <<"last">>, <<"seek", k>>, <<"next">>, <<"prev">>
Apply(c, op) ==
  CASE op[1] = "first" -> SeekFirst(c)
    [] op[1] = "last"  -> SeekLast(c)
    [] op[1] = "seek"  -> Seek(c, op[2])
    [] op[1] = "next"  -> Next(c)
    [] op[1] = "prev"  -> Prev(c)

AApply(s, p, op) ==
  CASE op[1] = "first" -> AFirst(s)
    [] op[1] = "last"  -> ALast(s)
    [] op[1] = "seek"  -> ASeek(s, op[2])
    [] op[1] = "next"  -> ANext(s, p)
    [] op[1] = "prev"  -> APrev(s, p)
=============================================================================
