--------------------------------- MODULE Stall ---------------------------------
(***************************************************************************)
(* Liveness skeleton of lsmtk's ingest / compaction hand-shake             *)
(* (tree/mod.rs: apply_manifest_ingest, compaction_thread,                 *)
(* apply_manifest_compaction, apply_moving_compaction):                    *)
(*   - one `compaction` mutex; condvar `stall` (ingest waits while level 0 *)
(*     is full) and condvar `compact` (compaction threads wait for work);  *)
(*   - ingest: lock; while L0 >= STALL: wait(stall); add a file to L0;      *)
(*     notify_all(compact); unlock;                                        *)
(*   - compaction thread: lock; loop { pick next_compaction or             *)
(*     wait(compact) }; unlock; perform (no lock); lock; apply;             *)
(*     notify_all(stall); unlock; again.                                    *)
(* The tree is abstracted to the number of L0 files, whether deeper work   *)
(* exists, and the set of compactions in progress.  The selector's rules   *)
(* that matter for progress are kept: an L0 compaction takes ALL L0 files  *)
(* (so it is selectable only while their number is <= MAXF), conflicts     *)
(* with another L0 compaction in progress, and is chosen when L0 has       *)
(* reached MAND files (mandatory) or - nondeterministically, standing for  *)
(* the size-based score - below that.                                      *)
(***************************************************************************)
EXTENDS Naturals, Integers, FiniteSets, TLC

CONSTANTS K,        \* compaction threads 1..K
          NI,       \* ingests to perform
          STALL, MAND, MAXF,
          Optional, \* TRUE: the score may select an L0 compaction below MAND; FALSE: never (worst case)
          Dev       \* "NoStallNotify": apply does not notify `stall`; "NoCompactNotify": ingest does not notify `compact`

Comp == 1..K
VARIABLES l0, mutex, ipc, left, cpc, cjob, stallW, compW, l0busy, deep
vars == <<l0, mutex, ipc, left, cpc, cjob, stallW, compW, l0busy, deep>>
\* thread ids: 0 = the ingesting thread (the flush thread or a caller of LsmTree::ingest), 1..K compaction threads

Init == /\ l0 = 0 /\ mutex = -1 /\ ipc = "idle" /\ left = NI
        /\ cpc = [c \in Comp |-> "lock"] /\ cjob = [c \in Comp |-> -1]
        /\ stallW = {} /\ compW = {} /\ l0busy = FALSE /\ deep = 0

(* ---------------------------------- ingest -------------------------------- *)
IStart == /\ ipc = "idle" /\ left > 0 /\ ipc' = "lock"
          /\ UNCHANGED <<l0, mutex, left, cpc, cjob, stallW, compW, l0busy, deep>>
ILock == /\ ipc \in {"lock", "relock"} /\ mutex = -1 /\ mutex' = 0 /\ ipc' = "check"
         /\ UNCHANGED <<l0, left, cpc, cjob, stallW, compW, l0busy, deep>>
ICheck == /\ ipc = "check" /\ mutex = 0
          /\ IF l0 >= STALL
             THEN /\ stallW' = stallW \cup {0} /\ mutex' = -1 /\ ipc' = "stalled"      \* stall.wait(mutex)
                  /\ UNCHANGED <<l0, left, cpc, cjob, compW, l0busy, deep>>
             ELSE /\ l0' = l0 + 1 /\ left' = left - 1
                  \* compact.notify_all()
                  /\ IF "NoCompactNotify" \in Dev THEN UNCHANGED <<compW, cpc>>
                     ELSE /\ compW' = {} /\ cpc' = [c \in Comp |-> IF c \in compW THEN "relock" ELSE cpc[c]]
                  /\ mutex' = -1 /\ ipc' = "idle"
                  /\ UNCHANGED <<cjob, stallW, l0busy, deep>>

(* ------------------------------ compaction threads ------------------------ *)
CLock(c) == /\ cpc[c] \in {"lock", "relock"} /\ mutex = -1 /\ mutex' = c /\ cpc' = [cpc EXCEPT ![c] = "pick"]
            /\ UNCHANGED <<l0, ipc, left, cjob, stallW, compW, l0busy, deep>>
\* next_compaction on the abstract tree
L0Selectable(opt) == l0 >= 1 /\ ~l0busy /\ l0 <= MAXF /\ (l0 >= MAND \/ opt)
CPick(c) ==
  /\ cpc[c] = "pick" /\ mutex = c
  /\ \E opt \in (IF Optional THEN BOOLEAN ELSE {FALSE}) :
       IF L0Selectable(opt)
       THEN /\ cjob' = [cjob EXCEPT ![c] = l0] /\ l0busy' = TRUE          \* the job remembers how many L0 files it takes
            /\ mutex' = -1 /\ cpc' = [cpc EXCEPT ![c] = "perform"]
            /\ UNCHANGED <<l0, ipc, left, stallW, compW, deep>>
       ELSE IF deep > 0
       THEN /\ cjob' = [cjob EXCEPT ![c] = 0] /\ deep' = deep - 1
            /\ mutex' = -1 /\ cpc' = [cpc EXCEPT ![c] = "perform"]
            /\ UNCHANGED <<l0, ipc, left, stallW, compW, l0busy>>
       ELSE /\ compW' = compW \cup {c} /\ mutex' = -1 /\ cpc' = [cpc EXCEPT ![c] = "idle"]     \* compact.wait(mutex)
            /\ UNCHANGED <<l0, ipc, left, cjob, stallW, l0busy, deep>>
CPerform(c) == /\ cpc[c] = "perform" /\ cpc' = [cpc EXCEPT ![c] = "applylock"]
               /\ UNCHANGED <<l0, mutex, ipc, left, cjob, stallW, compW, l0busy, deep>>
CApply(c) == /\ cpc[c] = "applylock" /\ mutex = -1
             /\ IF cjob[c] > 0 THEN l0' = l0 - cjob[c] /\ l0busy' = FALSE /\ deep' = deep + 1   \* the taken L0 files are merged one level down
                ELSE UNCHANGED <<l0, l0busy, deep>>
             /\ cjob' = [cjob EXCEPT ![c] = -1]
             \* stall.notify_all()
             /\ IF "NoStallNotify" \in Dev THEN UNCHANGED <<stallW, ipc>>
                ELSE /\ stallW' = {} /\ ipc' = IF 0 \in stallW THEN "relock" ELSE ipc
             /\ cpc' = [cpc EXCEPT ![c] = "lock"]
             /\ UNCHANGED <<mutex, left, compW>>

Ingest == IStart \/ ILock \/ ICheck
CompStep(c) == CLock(c) \/ CPick(c) \/ CPerform(c) \/ CApply(c)
Done == left = 0 /\ ipc = "idle"
Next == Ingest \/ (\E c \in Comp : CompStep(c)) \/ (Done /\ UNCHANGED vars)
Spec == Init /\ [][Next]_vars /\ WF_vars(Ingest) /\ \A c \in Comp : WF_vars(CompStep(c))

(* -------------------------------- properties ------------------------------ *)
\* every ingest eventually returns
AllIngested == <>(left = 0 /\ ipc = "idle")
\* whenever ingest is held back, some relieving compaction is in progress or can be picked
Stalled == ipc = "stalled"
ReliefPossible == (Stalled /\ l0 >= STALL) => (l0busy \/ (l0 <= MAXF /\ (l0 >= MAND \/ Optional)))
\* no lost wake-up: ingest is not asleep on `stall` while level 0 has room
NoLostStallWakeup == Stalled => (l0 >= STALL \/ mutex # -1 \/ \E c \in Comp : cpc[c] \in {"applylock"})
\* a compaction thread asleep for lack of work is not asleep while relieving work is selectable and ingest is stalled
NoSleepingWithWork == (Stalled /\ compW = Comp) => ~L0Selectable(FALSE)
TypeOK == l0 \in 0..(STALL + 1) /\ mutex \in -1..K
=============================================================================
