----------------------------- MODULE MC_TupleKey -----------------------------
(* TupleKey.tla over a universe of boundary values supplied as data (one tuple per line, IOEnv.TUPLES):      *)
(* every ordered pair of tuples of compatible shape is compared under both formats, every tuple's encoding  *)
(* is printed for replay against the real encoders.  Dev = {"DescStringPrefixTie"} while that finding is    *)
(* open: pairs in exactly that class are expected to be misordered by format 1 and are reported, not hidden. *)
EXTENDS TupleKey, Json, IOUtils
CONSTANTS Dev, Emit
Tuples == ndJsonDeserialize(IOEnv.TUPLES)
N == Len(Tuples)
VARIABLES i, j
vars == <<i, j>>
Init == i \in 1..N /\ j = 0
\* one state per tuple (its encodings), then one per ordered pair
Next == j = 0 /\ j' \in 1..N /\ i' = i
Spec == Init /\ [][Next]_vars
T(k) == Tuples[k].tuple
Fmt1Able(t) == \A k \in 1..Len(t) : t[k].v.t # "bytes"
Fmt2Able(t) == \A k \in 1..Len(t) : t[k].d = "F"
Pair == j > 0 /\ SameShape(T(i), T(j))
Order1 == (Pair /\ Fmt1Able(T(i)) /\ Fmt1Able(T(j))) =>
            IF "DescStringPrefixTie" \in Dev /\ DescStringPrefixTie(T(i), T(j))
            THEN TRUE
            ELSE OrderPreserved1(T(i), T(j))
\* the open finding is exactly that class: inside it the order is the ascending one
FindingStillThere == (Pair /\ Fmt1Able(T(i)) /\ Fmt1Able(T(j)) /\ DescStringPrefixTie(T(i), T(j)) /\ Len(T(i)) = Len(T(j)))
                       => ~OrderPreserved1(T(i), T(j))
Order2 == (Pair /\ Fmt2Able(T(i)) /\ Fmt2Able(T(j))) => OrderPreserved2(T(i), T(j))
\* prefix contiguity: T(i) a proper prefix (as a tuple) of T(j)
ProperPrefix(s, t) == Len(s) < Len(t) /\ SubSeq(t, 1, Len(s)) = s
Contig1 == (Pair /\ ProperPrefix(T(i), T(j)) /\ Fmt1Able(T(j))) => Cmp(Enc1(T(i)), Enc1(T(j))) = -1
Contig2 == (Pair /\ ProperPrefix(T(i), T(j)) /\ Fmt2Able(T(j))) => Cmp(Enc2(T(i)), Enc2(T(j))) = -1
Delimited == j = 0 => \A k \in 1..Len(T(i)) : T(i)[k].v.t # "bytes" => SelfDelimiting1(T(i)[k])
EmitLine == (Emit /\ j = 0) =>
   PrintT(<<"TKEY", ToJson([id |-> Tuples[i].id,
                            enc1 |-> IF Fmt1Able(T(i)) THEN Enc1(T(i)) ELSE <<>>,
                            enc2 |-> IF Fmt2Able(T(i)) THEN Enc2(T(i)) ELSE <<>>])>>)
\* the misordered pairs of the open finding, for the record
EmitFinding == (Pair /\ Fmt1Able(T(i)) /\ Fmt1Able(T(j)) /\ ~OrderPreserved1(T(i), T(j))) =>
   PrintT(<<"MISORDER", ToJson([a |-> Tuples[i].id, b |-> Tuples[j].id])>>)
=============================================================================
