---------------------------- MODULE Trace_Damage ----------------------------
(* Validation of a damage campaign (C09).  `layout` describes the pristine file (regions as reported by the *)
(* implementation itself through hook verif_regions for ssts, by walking the pristine bytes otherwise); each *)
(* `case` lists the damage applied to a copy (kind, offset, the region and position hit) and what every      *)
(* reader operation did with it.  Damage.tla says what a reader may do.                                       *)
EXTENDS Damage, TLCExt, Json, IOUtils
CONSTANT Dev          \* open findings admitted (known_findings.json): {"FinalBlockSteersStore"} or {}
Rec == ndJsonDeserialize(IOEnv.TRACE)
VARIABLES l, lay, seen
vars == <<l, lay, seen>>
Ev == Rec[l]
G(name, cond) == IF cond THEN TRUE ELSE Print(<<"GUARD-FAILED", name, "line", l>>, FALSE)
Is(e) == l <= Len(Rec) /\ Rec[l].ev = e /\ l' = l + 1

Init == l = 1 /\ lay = [file |-> "none"] /\ seen = {}
RegionsTile(rs, size) == /\ Len(rs) > 0 /\ rs[1].start = 0 /\ rs[Len(rs)].limit = size
                         /\ \A i \in 1..(Len(rs) - 1) : rs[i].limit = rs[i + 1].start
Layout == /\ Is("layout")
          /\ G("file kind known", Ev.file \in FileKinds)
          /\ G("regions are of the kinds of the format and tile the file",
               IF Ev.file = "store" THEN \A i \in 1..Len(Ev.files) : Ev.files[i].kind \in RegionKinds("store")
               ELSE RegionsTile(Ev.regions, Ev.size) /\ \A i \in 1..Len(Ev.regions) : Ev.regions[i].kind \in RegionKinds(Ev.file))
          /\ lay' = Ev /\ seen' = {}
Case == /\ Is("case")
        /\ G("a case belongs to the file laid out", Ev.file = lay.file)
        /\ G("damage kinds known", \A i \in 1..Len(Ev.dmgs) : Ev.dmgs[i].kind \in DamageKinds)
        /\ \A i \in 1..Len(Ev.ops) :
             LET op == Ev.ops[i] IN
             IF Noop(Ev.dmgs)
             THEN G("an overwrite with the byte already there changes nothing", Unchanged(op))
             ELSE /\ G("a reader of a damaged file does not panic (C09)", Terminates(op))
                  /\ (Judged(Ev.file, op) =>
                        /\ G("what a reader hands out before failing is genuine (C09)",
                             (HandsOut(op) => op.exact) \/ ("FinalBlockSteersStore" \in Dev /\ FinalBlockSteersStore(Ev.file, Ev.dmgs, op)))
                        /\ IF "FinalBlockSteersStore" \in Dev /\ ~Sound(Ev.file, Ev.dmgs, op) /\ FinalBlockSteersStore(Ev.file, Ev.dmgs, op)
                           THEN Print(<<"DEV-USED", "FinalBlockSteersStore", "line", l>>, TRUE)
                           ELSE G("a reader of a damaged file fails or returns exactly the pristine data (C09)", Sound(Ev.file, Ev.dmgs, op)))
        \* coverage: which (region kind, damage kind, noticed?) classes the campaign reached
        /\ seen' = seen \cup {<<Ev.dmgs[1].rkind, Ev.dmgs[1].kind, Noticed(Ev.ops)>>}
        /\ UNCHANGED lay
End == Is("end") /\ UNCHANGED <<lay, seen>>
TraceNext == Layout \/ Case \/ End
TraceSpec == Init /\ [][TraceNext]_vars
TraceAccepted ==
  LET d == TLCGet("stats").diameter IN
  IF d - 1 = Len(Rec) THEN TRUE
  ELSE Print(<<"TRACE-REJECTED", "matched", d - 1, "of", Len(Rec), "next", ToJson(Rec[d])>>, FALSE)
=============================================================================
