--------------------------------- MODULE Mani ---------------------------------
(***************************************************************************)
(* Design model of mani::Manifest (C13): an append-only file of            *)
(* transactions, each written and then synced before it is acknowledged;   *)
(* roll-over = hard-link MANIFEST to the next backup name (unless the      *)
(* newest backup already is that file), write the roll-up of the current   *)
(* state to MANIFEST.tmp, sync it, rename it over MANIFEST; open = fold    *)
(* MANIFEST, then roll over.  A crash may strike between any two steps;    *)
(* model "a" keeps everything a completed call did, model "b" reverts      *)
(* every file to its last synced length and keeps directory operations.    *)
(*                                                                         *)
(* Files are inodes; names map to inodes.  A transaction is                *)
(* [k |-> "edit", e |-> n] (adds string n) or [k |-> "rollup", s |-> set]. *)
(* Dev "RelinkAfterCrash": roll-over links MANIFEST again although the     *)
(* newest backup is that very file (as found; fixed in adc7a41).           *)
(* Dev "AckBeforeSync": an edit is acknowledged before its sync.           *)
(***************************************************************************)
EXTENDS Naturals, Integers, Sequences, FiniteSets, TLC

CONSTANTS MaxEdits, MaxRoll, MaxCrash, Dev

VARIABLES inodes,      \* inode id -> [txns, synced]  (synced: number of transactions that survive a model-"b" crash)
          names,       \* name -> inode id; names are M = 0 (MANIFEST), T = -1 (MANIFEST.tmp) and backup numbers 1, 2, ..
          mem,         \* the in-memory set of strings
          nextBackup,  \* last_rollover
          pc, cur,     \* what the process is doing; the edit in flight
          issued, acked, rolls, crashes, nextInode
vars == <<inodes, names, mem, nextBackup, pc, cur, issued, acked, rolls, crashes, nextInode>>

Fold(txns) == LET RECURSIVE f(_, _) f(i, s) == IF i > Len(txns) THEN s
                                             ELSE f(i + 1, IF txns[i].k = "rollup" THEN txns[i].s ELSE s \cup {txns[i].e})
              IN f(1, {})
M == 0          \* the name MANIFEST
T == -1         \* the name MANIFEST.tmp; backups are named by their positive numbers
Backups == {n \in DOMAIN names : n > 0}
Content(name) == inodes[names[name]].txns

Init == /\ inodes = (1 :> [txns |-> <<>>, synced |-> 0]) /\ names = (M :> 1) /\ nextInode = 2
        /\ mem = {} /\ nextBackup = 1 /\ pc = "idle" /\ cur = 0
        /\ issued = {} /\ acked = {} /\ rolls = 0 /\ crashes = 0

(* ------------------------------- apply an edit --------------------------- *)
ApplyWrite == /\ pc = "idle" /\ Cardinality(issued) < MaxEdits
              /\ LET e == Cardinality(issued) + 1 IN
                 /\ cur' = e /\ issued' = issued \cup {e}
                 /\ inodes' = [inodes EXCEPT ![names[M]].txns = Append(@, [k |-> "edit", e |-> e])]
                 /\ acked' = IF "AckBeforeSync" \in Dev THEN acked \cup {e} ELSE acked
              /\ pc' = "written"
              /\ UNCHANGED <<names, mem, nextBackup, rolls, crashes, nextInode>>
ApplySync == /\ pc = "written"
             /\ inodes' = [inodes EXCEPT ![names[M]].synced = Len(inodes[names[M]].txns)]
             /\ acked' = acked \cup {cur} /\ mem' = mem \cup {cur}
             \* the size rule may or may not ask for a roll-over now
             /\ \E roll \in BOOLEAN : pc' = IF roll /\ rolls < MaxRoll THEN "r_link" ELSE "idle"
             /\ UNCHANGED <<names, nextBackup, cur, issued, rolls, crashes, nextInode>>

(* -------------------------------- roll over ------------------------------ *)
NewestBackupIsManifest == nextBackup > 1 /\ (nextBackup - 1) \in DOMAIN names /\ names[nextBackup - 1] = names[M]
RLink == /\ pc = "r_link"
         /\ IF NewestBackupIsManifest /\ "RelinkAfterCrash" \notin Dev
            THEN UNCHANGED <<names, nextBackup>>
            ELSE names' = (nextBackup :> names[M]) @@ names /\ nextBackup' = nextBackup + 1
         /\ pc' = "r_rmtmp" /\ UNCHANGED <<inodes, mem, cur, issued, acked, rolls, crashes, nextInode>>
RRmTmp == /\ pc = "r_rmtmp"
          /\ names' = [n \in DOMAIN names \ {T} |-> names[n]]
          /\ pc' = "r_write" /\ UNCHANGED <<inodes, mem, nextBackup, cur, issued, acked, rolls, crashes, nextInode>>
RWrite == /\ pc = "r_write"
          /\ inodes' = (nextInode :> [txns |-> <<[k |-> "rollup", s |-> mem]>>, synced |-> 0]) @@ inodes
          /\ names' = (T :> nextInode) @@ names /\ nextInode' = nextInode + 1
          /\ pc' = "r_sync" /\ UNCHANGED <<mem, nextBackup, cur, issued, acked, rolls, crashes>>
RSync == /\ pc = "r_sync"
         /\ inodes' = [inodes EXCEPT ![names[T]].synced = 1]
         /\ pc' = "r_rename" /\ UNCHANGED <<names, mem, nextBackup, cur, issued, acked, rolls, crashes, nextInode>>
RRename == /\ pc = "r_rename"
           /\ names' = [n \in DOMAIN names \ {T} |-> IF n = M THEN names[T] ELSE names[n]]
           /\ rolls' = rolls + 1
           /\ pc' = "idle" /\ UNCHANGED <<inodes, mem, nextBackup, cur, issued, acked, crashes, nextInode>>

(* ----------------------------- crash and reopen -------------------------- *)
Crash == /\ pc # "down" /\ crashes < MaxCrash
         /\ \E model \in {"a", "b"} :
              inodes' = IF model = "a" THEN [i \in DOMAIN inodes |-> [inodes[i] EXCEPT !.synced = Len(inodes[i].txns)]]
                        ELSE [i \in DOMAIN inodes |-> [txns |-> SubSeq(inodes[i].txns, 1, inodes[i].synced), synced |-> inodes[i].synced]]
         /\ crashes' = crashes + 1 /\ pc' = "down" /\ cur' = 0
         /\ UNCHANGED <<names, mem, nextBackup, issued, acked, rolls, nextInode>>
\* open: fold MANIFEST, the next backup number is one above the highest there is, then roll over
Reopen == /\ pc = "down"
          /\ mem' = Fold(Content(M))
          /\ nextBackup' = IF Backups = {} THEN 1 ELSE (CHOOSE n \in Backups : \A m \in Backups : m <= n) + 1
          /\ pc' = "r_link"
          /\ UNCHANGED <<inodes, names, cur, issued, acked, rolls, crashes, nextInode>>

Next == ApplyWrite \/ ApplySync \/ RLink \/ RRmTmp \/ RWrite \/ RSync \/ RRename \/ Crash \/ Reopen
Spec == Init /\ [][Next]_vars

(* -------------------------------- properties ----------------------------- *)
\* what a reader of MANIFEST would find if the power failed now, in either persistence model
Survives(model) == LET i == inodes[names[M]] IN Fold(IF model = "a" THEN i.txns ELSE SubSeq(i.txns, 1, i.synced))
\* an acknowledged edit survives any crash; nothing is invented; an edit applies wholly (it is one transaction)
Durable == \A model \in {"a", "b"} : acked \subseteq Survives(model)
NothingInvented == \A model \in {"a", "b"} : Survives(model) \subseteq issued
\* while up and idle, memory is what the file says
InSync == pc = "idle" => mem = Fold(Content(M))
\* the chain of fragments: every backup once (no file under two backup names), in order each fragment starts with the
\* roll-up of what the one before it held
SortedBackups == LET RECURSIVE f(_) f(S) == IF S = {} THEN <<>> ELSE LET m == CHOOSE x \in S : \A y \in S : x <= y IN <<m>> \o f(S \ {m}) IN f(Backups)
ChainOnce == \A a, b \in Backups : a # b => names[a] # names[b]
ChainLinks == LET bs == SortedBackups IN
              \A j \in 2..Len(bs) : LET cur_ == inodes[names[bs[j]]].txns prev == inodes[names[bs[j - 1]]].txns IN
                                     cur_ # <<>> => (cur_[1].k = "rollup" /\ cur_[1].s = Fold(prev))
TypeOK == pc \in {"idle", "written", "r_link", "r_rmtmp", "r_write", "r_sync", "r_rename", "down"}
=============================================================================
